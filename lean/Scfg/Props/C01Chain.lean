import Scfg.Props.C14Reroute
/-!
# C01 — a whole run of the pipeline as a chain of certified steps

`closed_step_paths`: giving exits the edge to one new halting block (what `join_returns` does) leaves
every path unchanged — for any two hierarchies in the relation `ClosedStep`.

`chain_paths`: if every consecutive pair of a sequence of hierarchies passes the decidable check of
its step kind (`wrappedB`, `splicedB`, `reroutedB`, `closedB`, all proved sound), then from every block
of the first hierarchy an error-free walk by name over the last one shows the trace of the walk over
the first one: every decision sequence, every fuel. The harness evaluates `chainOK` on the hierarchies
exported before and after every mutating call of a real pipeline run.
-/
namespace Scfg.C01
open Scfg Scfg.Spec Scfg.C04

/-! ## Closing the graph -/

structure ClosedRel (new : Name) (b b' : Blk) : Prop where
  fields : b' = { b with jts := b'.jts }
  noNew : new ∉ b.jts
  targets : b'.jts = b.jts ∨ (b.jts = [] ∧ b'.jts = [new] ∧ b.kind.isBranching = false)

structure ClosedStep (H H' : Hier) (new : Name) : Prop where
  fresh : H.get? new = none
  newBlk : ∃ nb, H'.get? new = some nb ∧ nb.isRegion = false ∧ nb.isOrig = false ∧
    nb.kind.isBranching = false ∧ nb.jts = []
  rel : ∀ n, n ≠ new → (H.get? n = none ∧ H'.get? n = none) ∨
    ∃ b b', H.get? n = some b ∧ H'.get? n = some b' ∧ ClosedRel new b b'
  hdrFresh : ∀ n b, H.get? n = some b → b.header ≠ new

theorem closedRel_basic {new : Name} {b b' : Blk} (h : ClosedRel new b b') :
    b'.name = b.name ∧ b'.kind = b.kind ∧ b'.isRegion = b.isRegion ∧ b'.isOrig = b.isOrig ∧
    b'.header = b.header ∧ b'.var = b.var ∧ b'.tbl = b.tbl ∧ b'.asg = b.asg := by
  have hf := h.fields
  refine ⟨by rw [hf], by rw [hf], by rw [hf]; rfl, by rw [hf]; rfl, by rw [hf], by rw [hf], by rw [hf],
    by rw [hf]⟩

theorem closed_resolve (H H' : Hier) (new : Name) (hS : ClosedStep H H' new) : ∀ R n, n ≠ new →
    (resolve H R n = none ∧ resolve H' R n = none) ∨
    ∃ b b', resolve H R n = some b ∧ resolve H' R n = some b' ∧ ClosedRel new b b' := by
  intro R
  induction R with
  | zero => intro n _; exact Or.inl ⟨rfl, rfl⟩
  | succ R ih =>
    intro n hn
    rcases hS.rel n hn with ⟨h1, h2⟩ | ⟨b, b', h1, h2, hsame⟩
    · exact Or.inl ⟨by simp [resolve, h1], by simp [resolve, h2]⟩
    · obtain ⟨_, _, hreg, _, hhdr, _⟩ := closedRel_basic hsame
      simp only [resolve, h1, h2, hreg, hhdr]
      by_cases hr : b.isRegion = true
      · simp only [hr, if_true]
        exact ih b.header (hS.hdrFresh n b h1)
      · simp only [hr, Bool.false_eq_true, if_false]
        exact Or.inr ⟨b, b', rfl, rfl, hsame⟩

/-- the new block halts (or the walk runs out of fuel) -/
theorem closed_adv_new (H H' : Hier) (new : Name) (hS : ClosedStep H H' new) (consume : Bool) (R f : Nat)
    (val : Val) (r : WState) (h : advF H' consume R f new val = r) (hne : r.isErr = false) : r = .halt := by
  obtain ⟨nb, hg, hreg, hor, hbr, hj⟩ := hS.newBlk
  cases f with
  | zero => simp only [advF] at h; subst h; simp [WState.isErr] at hne
  | succ f =>
    cases R with
    | zero => simp only [advF, resolve] at h; subst h; simp [WState.isErr] at hne
    | succ R =>
      have hres : resolve H' (R + 1) new = some nb := by simp [resolve, hg, hreg]
      rw [advF, hres] at h
      simp only [hor, Bool.false_eq_true, if_false, synthExec, hbr, hj] at h
      exact h.symm

theorem closed_adv (H H' : Hier) (new : Name) (hS : ClosedStep H H' new) (consume : Bool) (R : Nat) :
    ∀ f n val r, n ≠ new → advF H' consume R f n val = r → r.isErr = false →
      advF H consume R f n val = r := by
  intro f
  induction f with
  | zero => intro n val r _ h hr; simp only [advF] at h; subst h; simp [WState.isErr] at hr
  | succ f ih =>
    intro n val r hn h hr
    rw [advF] at h ⊢
    rcases closed_resolve H H' new hS R n hn with ⟨h1, h2⟩ | ⟨b, b', h1, h2, hsame⟩
    · rw [h2] at h; subst h; simp [WState.isErr] at hr
    · rw [h2] at h
      rw [h1]
      obtain ⟨hname, hkind, _, horig, _, hvar, htbl, hasg⟩ := closedRel_basic hsame
      simp only [horig, hname] at h ⊢
      by_cases ho : b.isOrig = true
      · simp only [ho, if_true] at h ⊢; exact h
      · simp only [ho] at h ⊢
        rcases hsame.targets with hj | ⟨hj, hj', hbr⟩
        · have : b' = b := by rw [hsame.fields, hj]
          subst this
          cases he : synthExec consume b' val with
          | error e => rw [he] at h; exact h
          | ok res =>
            obtain ⟨val', oi⟩ := res
            rw [he] at h
            cases oi with
            | none => exact h
            | some i =>
              simp only at h ⊢
              cases ht : b'.jts[i]? with
              | none => rw [ht] at h; exact h
              | some t =>
                rw [ht] at h
                have htn : t ≠ new := fun e => hsame.noNew (e ▸ List.mem_of_getElem? ht)
                exact ih t val' r htn h hr
        · -- a synthetic exit that got the edge: one more step to the halting block
          simp only [synthExec, hbr, Bool.false_eq_true, if_false, hkind, hasg, hj, hj',
            List.getElem?_cons_zero] at h ⊢
          exact (closed_adv_new H H' new hS consume R f _ r h hr).symm

/-- **Closing the graph leaves every path unchanged.** -/
theorem closed_step_paths (H H' : Hier) (new : Name) (hS : ClosedStep H H' new) (consume : Bool) (R F : Nat) :
    ∀ (ds : List Nat) (st : WState), NotAt new st → CleanRun (sysF H' consume R F) st →
      run (sysF H consume R F) st ds = run (sysF H' consume R F) st ds := by
  refine runs_eq_of_clean_inv (sysF H consume R F) (sysF H' consume R F) (NotAt new) ?_
  intro st hp hc
  cases st with
  | halt => exact ⟨rfl, fun _ _ => ⟨rfl, trivial⟩⟩
  | err c m => exact ⟨rfl, fun _ _ => ⟨rfl, trivial⟩⟩
  | «at» n val =>
    have hn : n ≠ new := hp
    rcases hS.rel n hn with ⟨h1, h2⟩ | ⟨b, b', h1, h2, hsame⟩
    · refine ⟨by simp [sysF, obsOf, h1, h2], fun d hd => ?_⟩
      simp [sysF, obsOf, h2, Obs.arity] at hd
    · obtain ⟨hname, _⟩ := closedRel_basic hsame
      have hstepClean : ∀ d, d < ((sysF H' consume R F).obs (.at n val)).arity →
          (stepF H' consume R F b' val d).isErr = false := by
        intro d hd
        have := clean_obs _ _ (clean_step _ _ hc d hd)
        have h2' := obs_err_state H' _ _ this
        simpa [sysF, h2] using h2'
      rcases hsame.targets with hj | ⟨hj, hj', _⟩
      · have hbb : b' = b := by rw [hsame.fields, hj]
        subst hbb
        have hstep : ∀ d, (stepF H' consume R F b' val d).isErr = false →
            stepF H consume R F b' val d = stepF H' consume R F b' val d ∧
            NotAt new (stepF H' consume R F b' val d) := by
          intro d hne
          simp only [stepF] at hne ⊢
          cases ht : b'.jts[d]? with
          | none => simp [ht, WState.isErr] at hne
          | some t =>
            rw [ht] at hne
            simp only
            have htn : t ≠ new := fun e => hsame.noNew (e ▸ List.mem_of_getElem? ht)
            have := closed_adv H H' new hS consume R F t val _ htn rfl hne
            refine ⟨this, ?_⟩
            -- the walk over `H` ends at a block of `H`, and `new` is not one… via the result itself
            cases hx : advF H' consume R F t val with
            | halt => trivial
            | err _ _ => trivial
            | «at» m v =>
              show m ≠ new
              intro e
              subst e
              -- `.at new` would need an original block under the name `new` in `H'`
              have : ∀ f x w y z, advF H' consume R f x w = .at y z → ∃ bb, H'.get? y = some bb ∧ bb.isOrig = true := by
                intro f
                induction f with
                | zero => intro x w y z h; simp [advF] at h
                | succ f ihf =>
                  intro x w y z h
                  rw [advF] at h
                  cases hres : resolve H' R x with
                  | none => simp [hres] at h
                  | some bb =>
                    simp only [hres] at h
                    by_cases ho : bb.isOrig = true
                    · simp only [ho, if_true, WState.at.injEq] at h
                      obtain ⟨m0, hm0⟩ := resolve_from_get H' R x bb hres
                      have hnm := (get?_mem H' m0 bb hm0).2
                      exact ⟨bb, by rw [← h.1, hnm]; exact hm0, ho⟩
                    · simp only [ho] at h
                      cases hse : synthExec consume bb w with
                      | error e => simp [hse] at h
                      | ok res =>
                        obtain ⟨w1, oi⟩ := res
                        simp only [hse] at h
                        cases oi with
                        | none => simp at h
                        | some i =>
                          simp only at h
                          cases hjj : bb.jts[i]? with
                          | none => simp [hjj] at h
                          | some t2 => rw [hjj] at h; exact ihf _ _ _ _ h
              obtain ⟨bb, hbb, hbo⟩ := this F t val _ v hx
              obtain ⟨nb, hg, _, hor, _⟩ := hS.newBlk
              rw [hg] at hbb
              simp only [Option.some.injEq] at hbb
              rw [← hbb, hor] at hbo
              cases hbo
        constructor
        · simp only [sysF, obsOf, h1, h2]
          congr 1
          simp only [arityIn]
          cases hb : b'.jts with
          | nil => rfl
          | cons t ts =>
            cases ts with
            | nil =>
              simp only
              have har : ((sysF H' consume R F).obs (.at n val)).arity =
                  if stepF H' consume R F b' val 0 == .halt then 0 else 1 := by
                simp [sysF, obsOf, h2, arityIn, hb, Obs.arity]
              by_cases hh : stepF H' consume R F b' val 0 = .halt
              · have := (hstep 0 (by rw [hh]; rfl)).1
                rw [this]
              · have h1' : 0 < ((sysF H' consume R F).obs (.at n val)).arity := by rw [har]; simp [hh]
                rw [(hstep 0 (hstepClean 0 h1')).1]
            | cons t2 ts2 => rfl
        · intro d hd
          have hne := hstepClean d hd
          simp only [sysF, h1, h2]
          exact hstep d hne
      · -- an original exit that got the edge to the halting block: still offers no decision
        have hhalt : stepF H' consume R F b' val 0 = .halt ∨ (stepF H' consume R F b' val 0).isErr = true := by
          simp only [stepF, hj', List.getElem?_cons_zero]
          cases hx : advF H' consume R F new val with
          | halt => exact Or.inl rfl
          | err _ _ => exact Or.inr rfl
          | «at» m v =>
            have := closed_adv_new H H' new hS consume R F val _ hx rfl
            cases this
        have har : ((sysF H' consume R F).obs (.at n val)).arity =
            if stepF H' consume R F b' val 0 == .halt then 0 else 1 := by
          simp [sysF, obsOf, h2, arityIn, hj', Obs.arity]
        have hzero : stepF H' consume R F b' val 0 = .halt := by
          rcases hhalt with e | e
          · exact e
          · exfalso
            have hnh : ¬ stepF H' consume R F b' val 0 = .halt := by
              intro e2; rw [e2] at e; cases e
            have h1' : 0 < ((sysF H' consume R F).obs (.at n val)).arity := by rw [har]; simp [hnh]
            have := hstepClean 0 h1'
            rw [this] at e; cases e
        constructor
        · simp only [sysF, obsOf, h1, h2]
          congr 1
          simp only [arityIn, hj, hj', hzero]
          rfl
        · intro d hd
          rw [har, hzero] at hd
          simp at hd

/-! ## Soundness of the decidable check -/

theorem closedRelB_sound (new : Name) (b b' : Blk) (h : closedRelB new b b' = true) : ClosedRel new b b' := by
  simp only [closedRelB, Bool.and_eq_true, beq_iff_eq, Bool.or_eq_true, Bool.not_eq_true',
    List.isEmpty_iff] at h
  obtain ⟨⟨h1, h2⟩, h3⟩ := h
  refine ⟨h1, ?_, ?_⟩
  · intro hm
    have : b.jts.contains new = true := by simpa [List.contains_iff_mem] using hm
    rw [this] at h2; cases h2
  · rcases h3 with e | ⟨⟨e1, e2⟩, e3⟩
    · exact Or.inl e
    · exact Or.inr ⟨e1, e2, e3⟩

theorem closedB_sound (H H' : Hier) (new : Name) (h : closedB H H' new = true) : ClosedStep H H' new := by
  simp only [closedB, Bool.and_eq_true] at h
  obtain ⟨⟨⟨h0, h2⟩, h3⟩, h4⟩ := h
  refine ⟨by simpa using h0, ?_, ?_, ?_⟩
  · cases hg : H'.get? new with
    | none => simp [hg] at h2
    | some nb =>
      simp only [hg, Bool.and_eq_true, Bool.not_eq_true', List.isEmpty_iff] at h2
      obtain ⟨⟨⟨a1, a2⟩, a3⟩, a4⟩ := h2
      exact ⟨nb, rfl, a1, a2, a3, a4⟩
  · intro n hn
    by_cases hmem : n ∈ H.names ++ H'.names
    · have := List.all_eq_true.mp h3 n hmem
      simp only [Bool.or_eq_true, beq_iff_eq] at this
      rcases this with e | e
      · exact absurd e hn
      · cases hg : H.get? n <;> cases hg' : H'.get? n <;> simp only [hg, hg'] at e
        · exact Or.inl ⟨rfl, rfl⟩
        · cases e
        · cases e
        · exact Or.inr ⟨_, _, rfl, rfl, closedRelB_sound new _ _ e⟩
    · simp only [List.mem_append, not_or] at hmem
      exact Or.inl ⟨get?_none_of_not_mem H n hmem.1, get?_none_of_not_mem H' n hmem.2⟩
  · intro n b hg
    have := List.all_eq_true.mp h4 b (get?_mem H n b hg).1
    simpa using this

/-! ## Chains of certified steps -/

theorem clean_of_runs_eq (A B : Sys WState) (s s' : WState) (h : ∀ ds, run A s ds = run B s' ds)
    (hc : CleanRun B s') : CleanRun A s := by
  intro ds o ho
  rw [h ds] at ho
  exact hc ds o ho

/-- one certified step: blocks persist, and an error-free walk over the result shows the same traces -/
theorem step_paths (H H' : Hier) (t : StepTag) (h : stepOK H H' t = true) (n : Name)
    (hn : (H.get? n).isSome = true) :
    (H'.get? n).isSome = true ∧ ∀ (consume : Bool) (R F : Nat) (val : Val),
      CleanRun (sysF H' consume R F) (.at n val) →
      ∀ ds, run (sysF H consume R F) (.at n val) ds = run (sysF H' consume R F) (.at n val) ds := by
  cases t with
  | wrapped r hdr =>
    simp only [stepOK, Bool.and_eq_true] at h
    have hW := wrappedB_sound H H' r hdr h.2
    have hnr : n ≠ r := by
      intro e; subst e
      cases hg : H.get? n with
      | none => simp [hg] at hn
      | some _ => simp [hg] at h
    refine ⟨?_, fun consume R F val hc ds => wrapped_paths H H' r hdr hW consume R F ds _ hnr hc⟩
    rcases hW.rel n hnr with ⟨h1, _⟩ | ⟨_, _, _, h2, _⟩
    · simp [h1] at hn
    · simp [h2]
  | spliced new s =>
    simp only [stepOK, Bool.and_eq_true] at h
    have hS := Scfg.C14.splicedB_sound H H' new s h.2
    have hnr : n ≠ new := by
      intro e; subst e
      cases hg : H.get? n with
      | none => simp [hg] at hn
      | some _ => simp [hg] at h
    refine ⟨?_, fun consume R F val hc ds => Scfg.C14.spliced_paths H H' new s hS consume R F ds _ hnr hc⟩
    rcases hS.rel n hnr with ⟨h1, _⟩ | ⟨_, _, _, h2, _⟩
    · simp [h1] at hn
    · simp [h2]
  | rerouted =>
    simp only [stepOK] at h
    have hS := Scfg.Reroute.reroutedB_sound H H' _ h
    have hold : (fun n => (H.get? n).isNone) n = false := by
      cases hg : H.get? n with
      | none => simp [hg] at hn
      | some _ => simp [hg]
    refine ⟨?_, fun consume R F val hc ds =>
      Scfg.Reroute.rerouted_paths H H' _ _ _ hS consume R F ds _ _ ⟨rfl, Scfg.Reroute.AgreeOff.refl _ _⟩ hold hc⟩
    rcases hS.rel n hold with ⟨h1, _⟩ | ⟨_, _, _, h2, _⟩
    · simp [h1] at hn
    · simp [h2]
  | closed new =>
    simp only [stepOK] at h
    have hS := closedB_sound H H' new h
    have hnr : n ≠ new := by
      intro e; subst e
      simp only [closedB, Bool.and_eq_true] at h
      cases hg : H.get? n with
      | none => simp [hg] at hn
      | some _ => simp [hg] at h
    refine ⟨?_, fun consume R F val hc ds => closed_step_paths H H' new hS consume R F ds _ hnr hc⟩
    rcases hS.rel n hnr with ⟨h1, _⟩ | ⟨_, _, _, h2, _⟩
    · simp [h1] at hn
    · simp [h2]

/-- **A certified run of the pipeline preserves every path.** If every step of the chain passes the
    check of its kind, then from every block of the first hierarchy, for every valuation, fuel and decision
    sequence: whenever the walk by name over the last hierarchy meets no error, the walk over the first
    hierarchy shows exactly the same trace. -/
theorem chain_paths : ∀ (steps : List (StepTag × Hier)) (H : Hier), chainOK H steps = true →
    ∀ (n : Name), (H.get? n).isSome = true → ∀ (consume : Bool) (R F : Nat) (val : Val),
      CleanRun (sysF (chainLast H steps) consume R F) (.at n val) →
      ∀ ds, run (sysF H consume R F) (.at n val) ds =
        run (sysF (chainLast H steps) consume R F) (.at n val) ds := by
  intro steps
  induction steps with
  | nil => intro H _ n _ consume R F val _ ds; rfl
  | cons p rest ih =>
    obtain ⟨t, H'⟩ := p
    intro H h n hn consume R F val hc ds
    simp only [chainOK, Bool.and_eq_true] at h
    simp only [chainLast] at hc ⊢
    obtain ⟨hk, hp⟩ := step_paths H H' t h.1 n hn
    have hrest := ih H' h.2 n hk consume R F val hc
    have hc' : CleanRun (sysF H' consume R F) (.at n val) :=
      clean_of_runs_eq _ _ _ _ hrest hc
    rw [hp consume R F val hc' ds, hrest ds]

/-- at the specification's own fuel: the walk by name `sysName` over the final hierarchy -/
theorem chain_paths_sysName (steps : List (StepTag × Hier)) (H : Hier) (h : chainOK H steps = true)
    (n : Name) (hn : (H.get? n).isSome = true) (consume : Bool) (val : Val)
    (hc : CleanRun (sysName (chainLast H steps) consume) (.at n val)) (ds : List Nat) :
    run (sysF H consume ((chainLast H steps).length + 1) (walkFuel (chainLast H steps))) (.at n val) ds =
      run (sysName (chainLast H steps) consume) (.at n val) ds := by
  rw [sysName_eq_sysF] at hc ⊢
  exact chain_paths steps H h n hn consume _ _ val hc ds

/-! ## From the input graph -/

/-- on a flat graph of original blocks without dangling targets the walk by name is the walk of the graph -/
theorem flat_paths (G : Hier) (hG : flatB G = true) (consume : Bool) (R F : Nat) (hR : 1 ≤ R) (hF : 1 ≤ F) :
    ∀ (ds : List Nat) (n : Name) (g : Blk) (val : Val), G.get? n = some g →
      run (sysOrig G) (some n) ds = run (sysF G consume R F) (.at n val) ds := by
  have hall : ∀ b ∈ G, b.isOrig = true ∧ ∀ t ∈ b.jts, (G.get? t).isSome = true := by
    intro b hb
    have := List.all_eq_true.mp hG b hb
    simp only [Bool.and_eq_true, List.all_eq_true] at this
    exact this
  -- one step by name from a block of the graph lands on the named block
  have hadv : ∀ t x val, G.get? t = some x → advF G consume R F t val = .at t val := by
    intro t x val hx
    obtain ⟨R', rfl⟩ : ∃ R', R = R' + 1 := ⟨R - 1, by omega⟩
    obtain ⟨F', rfl⟩ : ∃ F', F = F' + 1 := ⟨F - 1, by omega⟩
    have hxm := get?_mem G t x hx
    have ho := (hall x hxm.1).1
    have hr : x.isRegion = false := by
      unfold Blk.isOrig at ho; unfold Blk.isRegion
      cases hk : x.kind <;> simp_all [BKind.isOrig, BKind.isRegion]
    simp [advF, resolve, hx, hr, ho, hxm.2]
  intro ds
  induction ds with
  | nil =>
    intro n g val hg
    have hgm := get?_mem G n g hg
    simp only [run, sysOrig, sysF, obsOf, hg, List.cons.injEq, and_true]
    congr 1
    simp only [arityIn]
    cases hj : g.jts with
    | nil => rfl
    | cons t ts =>
      cases ts with
      | cons _ _ => rfl
      | nil =>
        have hts := (hall g hgm.1).2 t (by simp [hj])
        cases hx : G.get? t with
        | none => simp [hx] at hts
        | some x =>
          simp [stepF, hj, hadv t x val hx]
  | cons d ds ih =>
    intro n g val hg
    have hgm := get?_mem G n g hg
    have hobs : (sysOrig G).obs (some n) = (sysF G consume R F).obs (.at n val) := by
      simp only [sysOrig, sysF, obsOf, hg]
      congr 1
      simp only [arityIn]
      cases hj : g.jts with
      | nil => rfl
      | cons t ts =>
        cases ts with
        | cons _ _ => rfl
        | nil =>
          have hts := (hall g hgm.1).2 t (by simp [hj])
          cases hx : G.get? t with
          | none => simp [hx] at hts
          | some x =>
            simp [stepF, hj, hadv t x val hx]
    simp only [run, hobs]
    by_cases hd : d < ((sysF G consume R F).obs (.at n val)).arity
    · simp only [hd, if_true, List.cons.injEq, true_and]
      have hd' : d < g.jts.length := by
        rw [← hobs] at hd
        simpa [sysOrig, hg, Obs.arity] using hd
      have ht : g.jts[d]? = some g.jts[d] := List.getElem?_eq_getElem hd'
      have hts := (hall g hgm.1).2 g.jts[d] (List.getElem_mem hd')
      cases hx : G.get? g.jts[d] with
      | none => simp [hx] at hts
      | some x =>
        have h1 : (sysOrig G).step (some n) d = some g.jts[d] := by simp [sysOrig, hg, ht]
        have h2 : (sysF G consume R F).step (.at n val) d = .at g.jts[d] val := by
          simp [sysF, hg, stepF, ht, hadv _ x val hx]
        rw [h1, h2]
        exact ih _ x val hx
    · simp [hd]

/-- **A certified pipeline run, end to end.** The input is a flat graph of original blocks; every step
    of the run passed its check. Then from every block of the input, whenever the walk by name over the
    final hierarchy is error-free, it shows exactly the input graph's trace under every decision
    sequence. -/
theorem certified_run_paths (G : Hier) (steps : List (StepTag × Hier)) (hG : flatB G = true)
    (h : chainOK G steps = true) (n : Name) (g : Blk) (hn : G.get? n = some g) (consume : Bool) (val : Val)
    (hc : CleanRun (sysName (chainLast G steps) consume) (.at n val)) (ds : List Nat) :
    run (sysOrig G) (some n) ds = run (sysName (chainLast G steps) consume) (.at n val) ds := by
  rw [← chain_paths_sysName steps G h n (by simp [hn]) consume val hc ds]
  exact flat_paths G hG consume _ _ (by omega) (by unfold walkFuel; omega) ds n g val hn

end Scfg.C01
