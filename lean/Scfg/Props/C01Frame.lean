import Scfg.Props.C04Walks
/-!
# Walks with explicit fuel, and a frame lemma for comparing two hierarchies

The specification-level walk `sysName H` uses two fuel bounds that depend on the size of `H`
(`walkFuel H` steps through synthetic blocks, `H.length + 1` region headers per name). Statements that
compare the walks of *two* hierarchies of different size are made for the same walk with the fuel as
parameters (`sysF H consume R F`; `sysName H consume = sysF H consume (H.length + 1) (walkFuel H)`), and
hold for every choice of the fuel — which is what "fuel-free" means here.

`runs_eq_of_clean`: two walk systems over the same states show the same trace from a state from
which one of them is error-free, provided that in every such state they observe the same thing and
take the same steps (the argument of `walks_coincide`, stated once).
-/
namespace Scfg.C01
open Scfg Scfg.C04

/-- `advanceName` with the header fuel `R` as a parameter -/
def advF (H : Hier) (consume : Bool) (R : Nat) : Nat → Name → Val → WState
  | 0, n, _ => .err false s!"out-of-fuel at {n}"
  | f + 1, n, val =>
    match resolve H R n with
    | none => .err false s!"dangling {n}"
    | some b =>
      if b.isOrig then .at b.name val
      else match synthExec consume b val with
        | .error e => .err e.1 e.2
        | .ok (_, none) => .halt
        | .ok (val', some i) =>
          match b.jts[i]? with
          | none => .err false s!"bad-index {b.name}"
          | some t => advF H consume R f t val'

theorem advanceName_eq_advF (H : Hier) (consume : Bool) : ∀ f n val,
    advanceName H consume f n val = advF H consume (H.length + 1) f n val := by
  intro f
  induction f with
  | zero => intro n val; rfl
  | succ f ih =>
    intro n val
    simp only [advanceName, advF]
    cases resolve H (H.length + 1) n with
    | none => rfl
    | some b =>
      simp only
      by_cases ho : b.isOrig = true
      · simp [ho]
      · simp only [ho]
        cases synthExec consume b val with
        | error e => rfl
        | ok r =>
          obtain ⟨val', oi⟩ := r
          cases oi with
          | none => rfl
          | some i =>
            simp only
            cases b.jts[i]? with
            | none => rfl
            | some t => exact ih _ _

def stepF (H : Hier) (consume : Bool) (R F : Nat) (b : Blk) (val : Val) (i : Nat) : WState :=
  match b.jts[i]? with
  | none => .err false s!"bad-index {b.name}"
  | some t => advF H consume R F t val

/-- the walk by name with explicit fuel -/
def sysF (H : Hier) (consume : Bool) (R F : Nat) : Sys WState where
  obs := obsOf H (stepF H consume R F)
  step := fun s i => match s with
    | .at n val => match H.get? n with
      | none => .err false s!"no-such-block {n}"
      | some b => stepF H consume R F b val i
    | s => s

theorem stepName_eq_stepF (H : Hier) (consume : Bool) (b : Blk) (val : Val) (i : Nat) :
    stepName H consume b val i = stepF H consume (H.length + 1) (walkFuel H) b val i := by
  simp only [stepName, stepF]
  cases b.jts[i]? with
  | none => rfl
  | some t => exact advanceName_eq_advF H consume _ _ _

/-- the specification's walk is the explicit-fuel walk at its own fuel -/
theorem sysName_eq_sysF (H : Hier) (consume : Bool) :
    sysName H consume = sysF H consume (H.length + 1) (walkFuel H) := by
  have hs : stepName H consume = stepF H consume (H.length + 1) (walkFuel H) := by
    funext b val i; exact stepName_eq_stepF H consume b val i
  unfold sysName sysF
  rw [hs]
  congr 1

/-- a result that is not an error does not change when more step fuel is given -/
theorem advF_mono (H : Hier) (consume : Bool) (R : Nat) : ∀ f n val s,
    advF H consume R f n val = s → s.isErr = false → advF H consume R (f + 1) n val = s := by
  intro f
  induction f with
  | zero => intro n val s h hs; simp only [advF] at h; subst h; simp [WState.isErr] at hs
  | succ f ih =>
    intro n val s h hs
    rw [advF] at h ⊢
    cases hr : resolve H R n with
    | none => rw [hr] at h; exact h
    | some b =>
      rw [hr] at h
      simp only at h ⊢
      by_cases ho : b.isOrig = true
      · simp only [ho, if_true] at h ⊢; exact h
      · simp only [ho] at h ⊢
        cases he : synthExec consume b val with
        | error e => rw [he] at h; exact h
        | ok r =>
          obtain ⟨val', oi⟩ := r
          rw [he] at h
          cases oi with
          | none => exact h
          | some i =>
            simp only at h ⊢
            cases ht : b.jts[i]? with
            | none => rw [ht] at h; exact h
            | some t =>
              rw [ht] at h
              exact ih _ _ _ h hs

/-- **Frame lemma.** Two systems over walk states agree on every trace from a state from which `B` is
    error-free, if in every such state they observe the same and step the same. -/
theorem runs_eq_of_clean (A B : Sys WState)
    (key : ∀ s, CleanRun B s → A.obs s = B.obs s ∧ ∀ d, d < (B.obs s).arity → A.step s d = B.step s d) :
    ∀ (ds : List Nat) (s : WState), CleanRun B s → run A s ds = run B s ds := by
  intro ds
  induction ds with
  | nil => intro s hc; simp [run, (key s hc).1]
  | cons d ds ih =>
    intro s hc
    obtain ⟨ho, hs⟩ := key s hc
    simp only [run, ho]
    by_cases hd : d < (B.obs s).arity
    · simp only [hd, if_true]
      rw [hs d hd]
      rw [ih _ (clean_step _ _ hc d hd)]
    · simp [hd]

/-- the same with an invariant on the states that are compared -/
theorem runs_eq_of_clean_inv (A B : Sys WState) (P : WState → Prop)
    (key : ∀ s, P s → CleanRun B s → A.obs s = B.obs s ∧
      ∀ d, d < (B.obs s).arity → A.step s d = B.step s d ∧ P (B.step s d)) :
    ∀ (ds : List Nat) (s : WState), P s → CleanRun B s → run A s ds = run B s ds := by
  intro ds
  induction ds with
  | nil => intro s hp hc; simp [run, (key s hp hc).1]
  | cons d ds ih =>
    intro s hp hc
    obtain ⟨ho, hs⟩ := key s hp hc
    simp only [run, ho]
    by_cases hd : d < (B.obs s).arity
    · simp only [hd, if_true]
      rw [(hs d hd).1]
      rw [ih _ (hs d hd).2 (clean_step _ _ hc d hd)]
    · simp [hd]

end Scfg.C01
