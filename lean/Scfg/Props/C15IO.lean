import Scfg.Spec.IOSpec
import Scfg.Props.C12
/-!
# C15 — the model of the dictionary writer and reader, a priori (all hierarchies, all dictionaries)

* `blk_roundtrip`   — one block: what the reader builds from what the writer wrote for a block is
                      that block again (type, ordered successors, back edges, payload, table,
                      variable, assignments, kind, header, exiting, parent, container).
* `toDict_sound` / `toDict_complete` / `toDict_keys_nodup` — whenever the model of `to_dict`
                      answers, the dictionary holds exactly one entry per block of the hierarchy
                      below the container (at every nesting depth), each being that block's entry.
* `makeScfg_exact`  — whenever the model of `make_scfg` answers, the graph it builds holds exactly
                      the blocks `MkCovered`: the entries reached breadth first from the heads
                      without continuing past the exiting block, and recursively what is covered
                      from each reached region's header.
-/
namespace Scfg.C15
open Scfg Scfg.Model Scfg.Spec

/-! ## One block -/

theorem entOfBlk_key (H : Hier) (b : Blk) (e : DEnt) (h : entOfBlk H b = .ok e) : e.key = b.name := by
  unfold entOfBlk at h
  simp only at h
  repeat' split at h
  all_goals first | (simp at h; done) | (simp only [Except.ok.injEq] at h; subst h; rfl)

/-- **Writer then reader, one block.** -/
theorem blk_roundtrip (H : Hier) (b : Blk) (e : DEnt) (h : entOfBlk H b = .ok e)
    (hn : normalBlk b = true) : blkOfEnt b.cont e = b := by
  obtain ⟨cont, name, kind, jts, bes, pay, asg, var, tbl, rkind, header, exiting, parent⟩ := b
  cases kind <;>
    simp_all [entOfBlk, blkOfEnt, normalBlk, Blk.isRegion, BKind.isRegion, BKind.isBranching] <;>
    first
    | (subst h; simp_all)
    | (split at h <;> first
        | (simp at h; done)
        | (simp only [Except.ok.injEq] at h; subst h; simp_all))

/-! ## The writer -/

/-- the blocks of the hierarchy below container `top`, at every nesting depth -/
inductive Below (H : Hier) (top : Name) : Blk → Prop
  | top {b} : b ∈ H.level top → Below H top b
  | inner {r b} : Below H top r → r.isRegion = true → b ∈ H.level r.name → Below H top b

theorem below_mem (H : Hier) (top : Name) (b : Blk) (h : Below H top b) : b ∈ H := by
  cases h with
  | top h => exact (List.mem_filter.mp h).1
  | inner _ _ h => exact (List.mem_filter.mp h).1

structure WInv (H : Hier) (top : Name) (q : List Blk) (seen : List Name) (out : Dict) : Prop where
  sound : ∀ e ∈ out, ∃ b, Below H top b ∧ entOfBlk H b = .ok e
  qbelow : ∀ b ∈ q, Below H top b
  keys : out.map (·.key) = seen.reverse
  nodup : seen.Nodup
  closed : ∀ b, Below H top b → b.name ∈ seen → b.isRegion = true →
    ∀ x ∈ H.level b.name, x.name ∈ seen ∨ x ∈ q

theorem eq_of_name_io (H : Hier) (hu : H.names.Nodup) (a b : Blk) (ha : a ∈ H) (hb : b ∈ H)
    (h : a.name = b.name) : a = b := by
  induction H with
  | nil => simp at ha
  | cons y ys ih =>
    simp only [Hier.names, List.map_cons, List.nodup_cons, List.mem_map, not_exists, not_and] at hu
    rcases List.mem_cons.mp ha with e1 | e1 <;> rcases List.mem_cons.mp hb with e2 | e2
    · rw [e1, e2]
    · subst e1; exact absurd h.symm (hu.1 b e2)
    · subst e2; exact absurd h (hu.1 a e1)
    · exact ih hu.2 e1 e2

theorem toDictGo_inv (H : Hier) (top : Name) (hu : H.names.Nodup) :
    ∀ (f : Nat) (q : List Blk) (seen : List Name) (out result : Dict), WInv H top q seen out →
      toDictGo H f q seen out = .ok result →
      ∃ seen', WInv H top [] seen' result ∧ (∀ n ∈ seen, n ∈ seen') ∧ (∀ b ∈ q, b.name ∈ seen') := by
  intro f
  induction f with
  | zero => intro q s o r _ h; simp [toDictGo] at h
  | succ f ih =>
    intro q seen out result hinv h
    cases q with
    | nil =>
      simp only [toDictGo, Except.ok.injEq] at h
      subst h
      exact ⟨seen, hinv, fun _ hn => hn, by simp⟩
    | cons b q =>
      simp only [toDictGo] at h
      split at h
      · next hs =>
        have hsm : b.name ∈ seen := by simpa [mem, List.contains_iff_mem] using hs
        obtain ⟨s', h1, h2, h3⟩ := ih q seen out result
          ⟨hinv.sound, fun x hx => hinv.qbelow x (List.mem_cons_of_mem _ hx), hinv.keys, hinv.nodup, by
            intro r hr hrs hreg x hx
            rcases hinv.closed r hr hrs hreg x hx with e | e
            · exact Or.inl e
            · rcases List.mem_cons.mp e with e2 | e2
              · exact Or.inl (e2 ▸ hsm)
              · exact Or.inr e2⟩ h
        exact ⟨s', h1, h2, fun x hx => by
          rcases List.mem_cons.mp hx with e | e
          · exact e ▸ h2 _ hsm
          · exact h3 x e⟩
      · next hs =>
        have hns : b.name ∉ seen := by simpa [mem, List.contains_iff_mem] using hs
        have hbb : Below H top b := hinv.qbelow b (by simp)
        cases he : entOfBlk H b with
        | error e => simp [he] at h
        | ok e =>
          simp only [he] at h
          obtain ⟨s', h1, h2, h3⟩ := ih _ (b.name :: seen) (out ++ [e]) result
            ⟨by
               intro e' he'
               rcases List.mem_append.mp he' with x | x
               · exact hinv.sound e' x
               · simp only [List.mem_singleton] at x
                 exact ⟨b, hbb, x ▸ he⟩,
             by
               intro x hx
               split at hx
               · next hreg =>
                 rcases List.mem_append.mp hx with y | y
                 · exact Below.inner hbb hreg (List.mem_reverse.mp y)
                 · exact hinv.qbelow x (List.mem_cons_of_mem _ y)
               · exact hinv.qbelow x (List.mem_cons_of_mem _ hx),
             by simp [hinv.keys, entOfBlk_key H b e he],
             List.nodup_cons.mpr ⟨hns, hinv.nodup⟩,
             by
               intro r hr hrs hreg x hx
               rcases List.mem_cons.mp hrs with e1 | e1
               · -- the block just processed (names are unique)
                 have : r = b := eq_of_name_io H hu r b (below_mem H top r hr) (below_mem H top b hbb) e1
                 subst this
                 simp only [hreg, if_true]
                 exact Or.inr (List.mem_append.mpr (Or.inl (List.mem_reverse.mpr hx)))
               · rcases hinv.closed r hr e1 hreg x hx with y | y
                 · exact Or.inl (List.mem_cons_of_mem _ y)
                 · rcases List.mem_cons.mp y with z | z
                   · exact Or.inl (by simp [z])
                   · refine Or.inr ?_
                     split
                     · exact List.mem_append.mpr (Or.inr z)
                     · exact z⟩ h
          exact ⟨s', h1, fun n hn => h2 n (List.mem_cons_of_mem _ hn), fun x hx => by
            rcases List.mem_cons.mp hx with e1 | e1
            · exact h2 _ (by simp [e1])
            · apply h3 x
              split
              · exact List.mem_append.mpr (Or.inr e1)
              · exact e1⟩

/-- **Nothing foreign is written**: every entry of the dictionary is the entry of a block of the
    hierarchy below the container (no hypotheses on the hierarchy beyond unique names). -/
theorem toDict_sound (H : Hier) (top : Name) (hu : H.names.Nodup) (D : Dict)
    (h : toDict H top = .ok D) : ∀ e ∈ D, ∃ b, Below H top b ∧ entOfBlk H b = .ok e := by
  obtain ⟨s', hinv, _, _⟩ := toDictGo_inv H top hu _ _ [] [] D
    ⟨by simp, fun b hb => Below.top (List.mem_reverse.mp hb), by simp, by simp, by simp⟩ h
  exact hinv.sound

/-- **Nothing is dropped**: every block below the container, at every nesting depth, has its
    entry in the dictionary. -/
theorem toDict_complete (H : Hier) (top : Name) (hu : H.names.Nodup) (D : Dict)
    (h : toDict H top = .ok D) : ∀ b, Below H top b → ∃ e ∈ D, e.key = b.name := by
  obtain ⟨s', hinv, _, hq⟩ := toDictGo_inv H top hu _ _ [] [] D
    ⟨by simp, fun b hb => Below.top (List.mem_reverse.mp hb), by simp, by simp, by simp⟩ h
  have seenAll : ∀ b, Below H top b → b.name ∈ s' := by
    intro b hb
    induction hb with
    | top hm => exact hq _ (List.mem_reverse.mpr hm)
    | inner hr hreg hm ihr =>
      rcases hinv.closed _ hr ihr hreg _ hm with e | e
      · exact e
      · simp at e
  intro b hb
  have : b.name ∈ D.map (·.key) := by rw [hinv.keys]; exact List.mem_reverse.mpr (seenAll b hb)
  obtain ⟨e, he, hk⟩ := List.mem_map.mp this
  exact ⟨e, he, hk⟩

/-- **Each block once**: the keys of the dictionary are pairwise different. -/
theorem toDict_keys_nodup (H : Hier) (top : Name) (hu : H.names.Nodup) (D : Dict)
    (h : toDict H top = .ok D) : (D.map (·.key)).Nodup := by
  obtain ⟨s', hinv, _, _⟩ := toDictGo_inv H top hu _ _ [] [] D
    ⟨by simp, fun b hb => Below.top (List.mem_reverse.mp hb), by simp, by simp, by simp⟩ h
  rw [hinv.keys]
  simpa [List.Nodup, List.pairwise_reverse, ne_comm] using hinv.nodup

/-! ## The reader -/

/-- names the breadth-first loop of `make_scfg` gets to: the heads, and every successor of a
    reached entry other than the exiting block -/
inductive MkReach (D : Dict) (heads : List Name) (ex : Option Name) : Name → Prop
  | head {h} : h ∈ heads → MkReach D heads ex h
  | succ {x e t} : MkReach D heads ex x → D.get? x = some e → some x ≠ ex → t ∈ e.edges →
      MkReach D heads ex t

/-- the blocks `make_scfg` is meant to build for container `c` -/
inductive MkCovered (D : Dict) : Name → List Name → Option Name → Blk → Prop
  | here {c heads ex x e} : MkReach D heads ex x → D.get? x = some e →
      MkCovered D c heads ex (blkOfEnt c e)
  | inside {c heads ex r e b} : MkReach D heads ex r → D.get? r = some e → e.typ.isRegion = true →
      MkCovered D e.key [e.header] (some e.exiting) b → MkCovered D c heads ex b

structure RInv (D : Dict) (c : Name) (heads : List Name) (ex : Option Name)
    (q seen : List Name) (out : List Blk) : Prop where
  sound : ∀ b ∈ out, MkCovered D c heads ex b
  qreach : ∀ n ∈ q, MkReach D heads ex n
  done : ∀ n ∈ seen, ∃ e, D.get? n = some e ∧ blkOfEnt c e ∈ out ∧
    (some n ≠ ex → ∀ t ∈ e.edges, t ∈ seen ∨ t ∈ q) ∧
    (e.typ.isRegion = true → ∀ b, MkCovered D e.key [e.header] (some e.exiting) b → b ∈ out)

theorem mkGo_inv (D : Dict) (f : Nat) (c : Name) (heads : List Name) (ex : Option Name)
    (ih : ∀ c' heads' ex' out', makeScfg D f c' heads' ex' = .ok out' →
      (∀ b, MkCovered D c' heads' ex' b → b ∈ out') ∧ (∀ b ∈ out', MkCovered D c' heads' ex' b)) :
    ∀ (g : Nat) (q seen : List Name) (out result : List Blk), RInv D c heads ex q seen out →
      makeScfg.go D f c ex g q seen out = .ok result →
      ∃ seen', RInv D c heads ex [] seen' result ∧ (∀ n ∈ seen, n ∈ seen') ∧ (∀ n ∈ q, n ∈ seen') := by
  intro g
  induction g with
  | zero => intro q s o r _ h; simp [makeScfg.go] at h
  | succ g ihg =>
    intro q seen out result hinv h
    cases q with
    | nil =>
      simp only [makeScfg.go, Except.ok.injEq] at h
      subst h
      exact ⟨seen, hinv, fun _ hn => hn, by simp⟩
    | cons n q =>
      simp only [makeScfg.go] at h
      split at h
      · next hs =>
        have hsm : n ∈ seen := by simpa [mem, List.contains_iff_mem] using hs
        obtain ⟨s', h1, h2, h3⟩ := ihg q seen out result
          ⟨hinv.sound, fun x hx => hinv.qreach x (List.mem_cons_of_mem _ hx), by
            intro m hm
            obtain ⟨e, d1, d2, d3, d4⟩ := hinv.done m hm
            refine ⟨e, d1, d2, ?_, d4⟩
            intro hne t ht
            rcases d3 hne t ht with y | y
            · exact Or.inl y
            · rcases List.mem_cons.mp y with z | z
              · exact Or.inl (z ▸ hsm)
              · exact Or.inr z⟩ h
        exact ⟨s', h1, h2, fun x hx => by
          rcases List.mem_cons.mp hx with e | e
          · exact e ▸ h2 _ hsm
          · exact h3 x e⟩
      · next hs =>
        have hns : n ∉ seen := by simpa [mem, List.contains_iff_mem] using hs
        have hreach : MkReach D heads ex n := hinv.qreach n (by simp)
        split at h
        · simp at h
        · next e he =>
          have key : ∃ inner, (if e.typ.isRegion = true then makeScfg D f e.key [e.header] (some e.exiting)
                else pure []) = .ok inner ∧
              makeScfg.go D f c ex g (if some n == ex then q else q ++ e.edges) (n :: seen)
                (out ++ [blkOfEnt c e] ++ inner) = .ok result := by
            cases hreg : e.typ.isRegion with
            | false =>
              simp only [hreg, Bool.false_eq_true, if_false, bind, Except.bind, pure, Except.pure] at h
              exact ⟨[], by simp [pure, Except.pure], by simpa using h⟩
            | true =>
              simp only [hreg, if_true, bind, Except.bind] at h
              cases hin : makeScfg D f e.key [e.header] (some e.exiting) with
              | error e' => simp [hin] at h
              | ok inner => exact ⟨inner, by simp, by simpa [hin] using h⟩
          obtain ⟨inner, hinner, hgo⟩ := key
          have hinSound : ∀ b ∈ inner, MkCovered D c heads ex b := by
            intro b hb
            cases hreg : e.typ.isRegion with
            | false => simp [hreg, pure, Except.pure] at hinner; subst hinner; simp at hb
            | true =>
              simp only [hreg, if_true] at hinner
              exact MkCovered.inside hreach he hreg ((ih _ _ _ _ hinner).2 b hb)
          have hinComplete : e.typ.isRegion = true →
              ∀ b, MkCovered D e.key [e.header] (some e.exiting) b → b ∈ inner := by
            intro hreg b hb
            simp only [hreg, if_true] at hinner
            exact (ih _ _ _ _ hinner).1 b hb
          obtain ⟨s', h1, h2, h3⟩ := ihg _ (n :: seen) (out ++ [blkOfEnt c e] ++ inner) result
            ⟨by
               intro b hb
               rcases List.mem_append.mp hb with x | x
               · rcases List.mem_append.mp x with y | y
                 · exact hinv.sound b y
                 · simp only [List.mem_singleton] at y
                   exact y ▸ MkCovered.here hreach he
               · exact hinSound b x,
             by
               intro m hm
               split at hm
               · exact hinv.qreach m (List.mem_cons_of_mem _ hm)
               · next hne =>
                 rcases List.mem_append.mp hm with x | x
                 · exact hinv.qreach m (List.mem_cons_of_mem _ x)
                 · exact MkReach.succ hreach he (by simpa using hne) x,
             by
               intro m hm
               rcases List.mem_cons.mp hm with e1 | e1
               · subst e1
                 refine ⟨e, he, by simp, ?_, ?_⟩
                 · intro hne t ht
                   have : (some m == ex) = false := by simpa using hne
                   simp only [this, Bool.false_eq_true, if_false]
                   exact Or.inr (List.mem_append.mpr (Or.inr ht))
                 · intro hreg b hb
                   exact List.mem_append.mpr (Or.inr (hinComplete hreg b hb))
               · obtain ⟨e', d1, d2, d3, d4⟩ := hinv.done m e1
                 refine ⟨e', d1, by simp [d2], ?_, ?_⟩
                 · intro hne t ht
                   rcases d3 hne t ht with y | y
                   · exact Or.inl (List.mem_cons_of_mem _ y)
                   · rcases List.mem_cons.mp y with z | z
                     · exact Or.inl (by simp [z])
                     · refine Or.inr ?_
                       split
                       · exact z
                       · exact List.mem_append.mpr (Or.inl z)
                 · intro hreg b hb
                   have := d4 hreg b hb
                   simp [this]⟩ hgo
          exact ⟨s', h1, fun m hm => h2 m (List.mem_cons_of_mem _ hm), fun x hx => by
            rcases List.mem_cons.mp hx with e1 | e1
            · exact h2 _ (by simp [e1])
            · apply h3 x
              split
              · exact e1
              · exact List.mem_append.mpr (Or.inl e1)⟩

/-- **`make_scfg`, a priori, for every dictionary and every nesting depth.** Whenever the model
    answers, the graph it built holds exactly the covered blocks. -/
theorem makeScfg_exact (D : Dict) : ∀ (f : Nat) (c : Name) (heads : List Name) (ex : Option Name)
    (out : List Blk), makeScfg D f c heads ex = .ok out →
    (∀ b, MkCovered D c heads ex b → b ∈ out) ∧ (∀ b ∈ out, MkCovered D c heads ex b) := by
  intro f
  induction f with
  | zero => intro c heads ex out h; simp [makeScfg] at h
  | succ f ih =>
    intro c heads ex out h
    rw [makeScfg] at h
    obtain ⟨s', hinv, _, hq⟩ := mkGo_inv D f c heads ex ih _ heads [] [] out
      ⟨by simp, fun n hn => MkReach.head hn, by simp⟩ h
    have reachSeen : ∀ x, MkReach D heads ex x → x ∈ s' := by
      intro x hx
      induction hx with
      | head hh => exact hq _ hh
      | succ _ he hne ht ihx =>
        obtain ⟨e', d1, _, d3, _⟩ := hinv.done _ ihx
        rw [he] at d1
        simp only [Option.some.injEq] at d1
        subst d1
        rcases d3 hne _ ht with y | y
        · exact y
        · simp at y
    refine ⟨?_, hinv.sound⟩
    intro b hb
    cases hb with
    | here hr he =>
      obtain ⟨e', d1, d2, _, _⟩ := hinv.done _ (reachSeen _ hr)
      rw [he] at d1
      simp only [Option.some.injEq] at d1
      subst d1
      exact d2
    | inside hr he hreg hcov =>
      obtain ⟨e', d1, _, _, d4⟩ := hinv.done _ (reachSeen _ hr)
      rw [he] at d1
      simp only [Option.some.injEq] at d1
      subst d1
      exact d4 hreg _ hcov

/-! ## Writer then reader: the round trip of the model -/

theorem mem_sortNames (xs : List Name) (x : Name) : x ∈ sortNames xs ↔ x ∈ xs :=
  (Scfg.C12.sortNames_perm_self xs).mem_iff

/-- the fields the writer stores for a block -/
theorem entOfBlk_fields (H : Hier) (b : Blk) (e : DEnt) (h : entOfBlk H b = .ok e) :
    e.key = b.name ∧ e.typ = b.kind ∧ e.edges = b.jts ∧
    (b.isRegion = true → e.header = b.header ∧ e.exiting = b.exiting ∧ e.parentRegion = b.parent ∧
      e.contains = sortNames (levelNames H b.name)) ∧
    (b.isRegion = false → e.contains = []) := by
  unfold entOfBlk at h
  simp only at h
  repeat' split at h
  all_goals first
    | (simp at h; done)
    | (simp only [Except.ok.injEq] at h; subst h; simp_all [levelNames])

/-- members of a region's level reachable from its header without continuing past the exiting block -/
inductive LReach (H : Hier) (r : Blk) : Name → Prop
  | header : LReach H r r.header
  | succ {x b t} : LReach H r x → b ∈ H.level r.name → b.name = x → x ≠ r.exiting → t ∈ b.jts →
      LReach H r t

/-- What the round trip needs of a hierarchy (all decidable, evaluated on every real stage graph by
    `ioReady`): unique names, a container name that is no block's name, blocks in normal form,
    every region's header inside it, only the exiting block naming anything outside its level
    (C04: W1, W2, W3, W6), and every member of a region reachable from its header. -/
structure IOReady (H : Hier) (top : Name) : Prop where
  unique : H.names.Nodup
  topFresh : top ∉ H.names
  normal : ∀ b ∈ H, normalBlk b = true
  header : ∀ r ∈ H, r.isRegion = true → r.header ∈ levelNames H r.name
  stay : ∀ r ∈ H, r.isRegion = true → ∀ b ∈ H.level r.name, b.name ≠ r.exiting →
    ∀ t ∈ b.jts, t ∈ levelNames H r.name
  stayTop : ∀ b ∈ H.level top, ∀ t ∈ b.jts, t ∈ levelNames H top
  reach : ∀ r ∈ H, r.isRegion = true → ∀ b ∈ H.level r.name, LReach H r b.name

theorem lreachIter_sound (H : Hier) (r : Blk) : ∀ (f : Nat) (S : List Name),
    (∀ x ∈ S, LReach H r x) → ∀ x ∈ lreachIter (H.level r.name) r.exiting f S, LReach H r x := by
  intro f
  induction f with
  | zero => intro S h x hx; exact h x hx
  | succ f ih =>
    intro S h x hx
    simp only [lreachIter] at hx
    apply ih _ _ x hx
    intro y hy
    simp only [lreachStep, List.mem_append, List.mem_flatMap, List.mem_filter, Bool.and_eq_true,
      List.contains_iff_mem, bne_iff_ne] at hy
    rcases hy with hy | ⟨b, ⟨hb, hbS, hne⟩, hyt⟩
    · exact h y hy
    · exact LReach.succ (h _ hbS) hb rfl hne hyt

/-- the Boolean the harness evaluates on real graphs implies the theorem's hypothesis -/
theorem ioReady_sound (H : Hier) (top : Name) (h : ioReady H top = true) : IOReady H top := by
  simp only [ioReady, Bool.and_eq_true, Bool.not_eq_true', List.all_eq_true, Bool.or_eq_true,
    List.contains_iff_mem, beq_iff_eq] at h
  obtain ⟨⟨⟨⟨h1, h2⟩, h3⟩, h4⟩, h5⟩ := h
  have hnd : H.names.Nodup := by
    have : ∀ xs : List Name, nodupL xs = true → xs.Nodup := by
      intro xs
      induction xs with
      | nil => simp
      | cons x xs ih => simp only [nodupL, Bool.and_eq_true, Bool.not_eq_true', List.nodup_cons]
                        intro hh; exact ⟨by simpa [List.contains_iff_mem] using hh.1, ih hh.2⟩
    exact this _ h1
  refine ⟨hnd, by simpa [List.contains_iff_mem] using h2, h3, ?_, ?_, h5, ?_⟩
  · intro r hr hreg
    rcases h4 r hr with e | e
    · simp [hreg] at e
    · exact e.1.1
  · intro r hr hreg b hb hne t ht
    rcases h4 r hr with e | e
    · simp [hreg] at e
    · rcases e.1.2 b hb with e2 | e2
      · exact absurd e2 hne
      · exact e2 t ht
  · intro r hr hreg b hb
    rcases h4 r hr with e | e
    · simp [hreg] at e
    · have := e.2
      simp only [lreachAll, List.all_eq_true, List.contains_iff_mem] at this
      exact lreachIter_sound H r _ _ (by intro x hx; simp only [List.mem_singleton] at hx; exact hx ▸ LReach.header) _
        (this b hb)

theorem level_mem (H : Hier) (c : Name) (b : Blk) (h : b ∈ H.level c) : b ∈ H ∧ b.cont = c := by
  have := List.mem_filter.mp h
  exact ⟨this.1, by simpa using this.2⟩

theorem keys_inj (D : Dict) (hk : (D.map (·.key)).Nodup) (a b : DEnt) (ha : a ∈ D) (hb : b ∈ D)
    (h : a.key = b.key) : a = b := by
  induction D with
  | nil => simp at ha
  | cons y ys ih =>
    simp only [List.map_cons, List.nodup_cons, List.mem_map, not_exists, not_and] at hk
    rcases List.mem_cons.mp ha with e1 | e1 <;> rcases List.mem_cons.mp hb with e2 | e2
    · rw [e1, e2]
    · subst e1; exact absurd h.symm (hk.1 b e2)
    · subst e2; exact absurd h (hk.1 a e1)
    · exact ih hk.2 e1 e2

/-- the contexts in which the reader builds a level -/
def Ctx (H : Hier) (top : Name) (D : Dict) (c : Name) (heads : List Name) (ex : Option Name) : Prop :=
  (c = top ∧ heads = sortNames (outerGraph D) ∧ ex = none) ∨
  ∃ r, Below H top r ∧ r.isRegion = true ∧ c = r.name ∧ heads = [r.header] ∧ ex = some r.exiting

section RoundTrip
variable (H : Hier) (top : Name) (hr : IOReady H top) (D : Dict) (hD : toDict H top = .ok D)
include hr hD

/-- the dictionary maps every block's name to that block's entry -/
theorem dict_get (b : Blk) (hb : Below H top b) : ∃ e, D.get? b.name = some e ∧ entOfBlk H b = .ok e := by
  obtain ⟨e, he, hk⟩ := toDict_complete H top hr.unique D hD b hb
  obtain ⟨b', hb', heb'⟩ := toDict_sound H top hr.unique D hD e he
  have hn : b'.name = b.name := by rw [← entOfBlk_key H b' e heb', hk]
  have : b' = b := eq_of_name_io H hr.unique b' b (below_mem H top b' hb') (below_mem H top b hb) hn
  subst this
  refine ⟨e, ?_, heb'⟩
  cases hf : D.get? b'.name with
  | none =>
    unfold Dict.get? at hf
    have := List.find?_eq_none.mp hf e he
    simp [hk] at this
  | some e0 =>
    unfold Dict.get? at hf
    have h1 := List.find?_some hf
    have h2 := List.mem_of_find?_eq_some hf
    simp only [beq_iff_eq] at h1
    rw [keys_inj D (toDict_keys_nodup H top hr.unique D hD) e0 e h2 he (h1.trans hk.symm)]

/-- the outermost graph found by the reader is the top level -/
theorem outer_eq (n : Name) : n ∈ outerGraph D ↔ n ∈ levelNames H top := by
  unfold outerGraph
  simp only [List.mem_filter, List.mem_map, Bool.not_eq_true', List.any_eq_false,
    List.contains_iff_mem]
  constructor
  · rintro ⟨⟨e, he, hk⟩, hnot⟩
    obtain ⟨b, hb, heb⟩ := toDict_sound H top hr.unique D hD e he
    have hkey := entOfBlk_key H b e heb
    cases hb with
    | top hm => exact List.mem_map.mpr ⟨b, hm, by rw [← hkey, hk]⟩
    | inner hbr hreg hm =>
      rename_i r
      exfalso
      obtain ⟨er, her, hrent⟩ := dict_get H top hr D hD r hbr
      have hc := ((entOfBlk_fields H r er hrent).2.2.2.1 hreg).2.2.2
      have hmem : er ∈ D := by
        unfold Dict.get? at her
        exact List.mem_of_find?_eq_some her
      apply hnot er hmem
      rw [hc, mem_sortNames]
      exact List.mem_map.mpr ⟨b, hm, by rw [← hkey, hk]⟩
  · intro hn
    obtain ⟨b, hm, hbn⟩ := List.mem_map.mp hn
    obtain ⟨e, he, hk⟩ := toDict_complete H top hr.unique D hD b (Below.top hm)
    refine ⟨⟨e, he, by rw [hk, hbn]⟩, ?_⟩
    intro e' he' hcont
    obtain ⟨r', hr', her'⟩ := toDict_sound H top hr.unique D hD e' he'
    cases hreg : r'.isRegion with
    | false =>
      rw [(entOfBlk_fields H r' e' her').2.2.2.2 hreg] at hcont
      simp at hcont
    | true =>
      rw [((entOfBlk_fields H r' e' her').2.2.2.1 hreg).2.2.2, mem_sortNames] at hcont
      obtain ⟨b', hm', hbn'⟩ := List.mem_map.mp hcont
      have : b' = b := eq_of_name_io H hr.unique b' b (level_mem H _ _ hm').1 (level_mem H _ _ hm).1
        (hbn'.trans hbn.symm)
      subst this
      have h1 := (level_mem H _ _ hm').2
      have h2 := (level_mem H _ _ hm).2
      exact hr.topFresh (List.mem_map.mpr ⟨r', below_mem H top r' hr', by rw [← h1, h2]⟩)

/-- in the context of a region, the reader's breadth-first loop reaches exactly the members -/
theorem reach_region (r : Blk) (hbr : Below H top r) (hreg : r.isRegion = true) (n : Name) :
    MkReach D [r.header] (some r.exiting) n ↔ n ∈ levelNames H r.name := by
  have hrm := below_mem H top r hbr
  constructor
  · intro h
    induction h with
    | head hh =>
      simp only [List.mem_singleton] at hh
      exact hh ▸ hr.header r hrm hreg
    | succ _ he hne ht ih =>
      obtain ⟨b, hm, hbn⟩ := List.mem_map.mp ih
      obtain ⟨e', he', hent⟩ := dict_get H top hr D hD b (Below.inner hbr hreg hm)
      rw [hbn, he] at he'
      simp only [Option.some.injEq] at he'
      subst he'
      rw [(entOfBlk_fields H b _ hent).2.2.1] at ht
      exact hr.stay r hrm hreg b hm (by rw [hbn]; intro e; exact hne (by rw [e])) _ ht
  · intro hn
    obtain ⟨b, hm, hbn⟩ := List.mem_map.mp hn
    have := hr.reach r hrm hreg b hm
    rw [hbn] at this
    clear hm hbn hn
    induction this with
    | header => exact MkReach.head (by simp)
    | @succ x b' t _ hm' hbn' hne ht ih =>
      obtain ⟨e', he', hent⟩ := dict_get H top hr D hD b' (Below.inner hbr hreg hm')
      rw [hbn'] at he'
      exact MkReach.succ ih he' (by intro e; exact hne (by simpa using e))
        (by rw [(entOfBlk_fields H b' _ hent).2.2.1]; exact ht)

/-- at the top the reader reaches exactly the top level -/
theorem reach_top (n : Name) :
    MkReach D (sortNames (outerGraph D)) none n ↔ n ∈ levelNames H top := by
  constructor
  · intro h
    induction h with
    | head hh => exact (outer_eq H top hr D hD _).mp ((mem_sortNames _ _).mp hh)
    | succ _ he _ ht ih =>
      obtain ⟨b, hm, hbn⟩ := List.mem_map.mp ih
      obtain ⟨e', he', hent⟩ := dict_get H top hr D hD b (Below.top hm)
      rw [hbn, he] at he'
      simp only [Option.some.injEq] at he'
      subst he'
      rw [(entOfBlk_fields H b _ hent).2.2.1] at ht
      exact hr.stayTop b hm _ ht
  · intro hn
    exact MkReach.head ((mem_sortNames _ _).mpr ((outer_eq H top hr D hD _).mpr hn))

/-- a name reached in a context is a member of that context's level, below the container -/
theorem ctx_member (c : Name) (heads : List Name) (ex : Option Name) (hc : Ctx H top D c heads ex)
    (x : Name) (hx : MkReach D heads ex x) : ∃ b, b ∈ H.level c ∧ b.name = x ∧ Below H top b := by
  rcases hc with ⟨h1, h2, h3⟩ | ⟨r, hbr, hreg, h1, h2, h3⟩
  · subst h2 h3
    rw [h1]
    obtain ⟨b, hm, hbn⟩ := List.mem_map.mp ((reach_top H top hr D hD x).mp hx)
    exact ⟨b, hm, hbn, Below.top hm⟩
  · subst h1 h2 h3
    obtain ⟨b, hm, hbn⟩ := List.mem_map.mp ((reach_region H top hr D hD r hbr hreg x).mp hx)
    exact ⟨b, hm, hbn, Below.inner hbr hreg hm⟩

theorem covered_below (c : Name) (heads : List Name) (ex : Option Name) (b : Blk)
    (h : MkCovered D c heads ex b) : Ctx H top D c heads ex → Below H top b := by
  induction h with
  | here hx he =>
    intro hc
    obtain ⟨b0, hm, hbn, hb0⟩ := ctx_member H top hr D hD _ _ _ hc _ hx
    obtain ⟨e', he', hent⟩ := dict_get H top hr D hD b0 hb0
    rw [hbn, he] at he'
    simp only [Option.some.injEq] at he'
    subst he'
    have := blk_roundtrip H b0 _ hent (hr.normal b0 (below_mem H top b0 hb0))
    rw [(level_mem H _ _ hm).2] at this
    rw [this]
    exact hb0
  | inside hx he hreg _ ih =>
    intro hc
    obtain ⟨b0, hm, hbn, hb0⟩ := ctx_member H top hr D hD _ _ _ hc _ hx
    obtain ⟨e', he', hent⟩ := dict_get H top hr D hD b0 hb0
    rw [hbn, he] at he'
    simp only [Option.some.injEq] at he'
    subst he'
    obtain ⟨f1, f2, _, f4, _⟩ := entOfBlk_fields H b0 _ hent
    have hreg0 : b0.isRegion = true := by simpa [Blk.isRegion, f2] using hreg
    obtain ⟨g1, g2, _, _⟩ := f4 hreg0
    exact ih (Or.inr ⟨b0, hb0, hreg0, f1, by rw [g1], by rw [g2]⟩)

/-- what is covered from a region's header is covered from the top -/
theorem lift_top (r : Blk) (hbr : Below H top r) : r.isRegion = true → ∀ b,
    MkCovered D r.name [r.header] (some r.exiting) b →
    MkCovered D top (sortNames (outerGraph D)) none b := by
  induction hbr with
  | top hm =>
    rename_i r
    intro hreg b hcov
    obtain ⟨e, he, hent⟩ := dict_get H top hr D hD r (Below.top hm)
    obtain ⟨f1, f2, _, f4, _⟩ := entOfBlk_fields H r e hent
    obtain ⟨g1, g2, _, _⟩ := f4 hreg
    refine MkCovered.inside ((reach_top H top hr D hD r.name).mpr (List.mem_map.mpr ⟨r, hm, rfl⟩)) he
      (by simpa [Blk.isRegion, f2] using hreg) ?_
    rw [f1, g1, g2]
    exact hcov
  | inner hbr0 hreg0 hm ih =>
    rename_i r0 r
    intro hreg b hcov
    obtain ⟨e, he, hent⟩ := dict_get H top hr D hD r (Below.inner hbr0 hreg0 hm)
    obtain ⟨f1, f2, _, f4, _⟩ := entOfBlk_fields H r e hent
    obtain ⟨g1, g2, _, _⟩ := f4 hreg
    apply ih hreg0
    refine MkCovered.inside
      ((reach_region H top hr D hD r0 hbr0 hreg0 r.name).mpr (List.mem_map.mpr ⟨r, hm, rfl⟩)) he
      (by simpa [Blk.isRegion, f2] using hreg) ?_
    rw [f1, g1, g2]
    exact hcov

theorem below_covered (b : Blk) (hb : Below H top b) :
    MkCovered D top (sortNames (outerGraph D)) none b := by
  cases hb with
  | top hm =>
    obtain ⟨e, he, hent⟩ := dict_get H top hr D hD b (Below.top hm)
    have := blk_roundtrip H b e hent (hr.normal b (level_mem H _ _ hm).1)
    rw [(level_mem H _ _ hm).2] at this
    rw [← this]
    exact MkCovered.here ((reach_top H top hr D hD b.name).mpr (List.mem_map.mpr ⟨b, hm, rfl⟩)) he
  | inner hbr hreg hm =>
    rename_i r
    obtain ⟨e, he, hent⟩ := dict_get H top hr D hD b (Below.inner hbr hreg hm)
    have := blk_roundtrip H b e hent (hr.normal b (level_mem H _ _ hm).1)
    rw [(level_mem H _ _ hm).2] at this
    apply lift_top H top hr D hD r hbr hreg
    rw [← this]
    exact MkCovered.here
      ((reach_region H top hr D hD r hbr hreg b.name).mpr (List.mem_map.mpr ⟨b, hm, rfl⟩)) he

/-- **Round trip of the model (C15), for every hierarchy that is `IOReady`.** Whenever the writer
    answers with a dictionary and the reader answers on that dictionary, the graph read back holds
    exactly the blocks of the original hierarchy below the container — every block with its
    container, type, ordered successors, back edges, payload, value table, variable, assignments,
    region kind, header, exiting block and parent — and it carries the same container name. -/
theorem io_roundtrip (top' : Name) (H' : Hier) (hF : fromDict D top = .ok (top', H')) :
    top' = top ∧ ∀ b, b ∈ H' ↔ Below H top b := by
  unfold fromDict at hF
  simp only [bind, Except.bind, pure, Except.pure] at hF
  split at hF
  · simp at hF
  · generalize hT : List.findSome? _ (sortNames (outerGraph D)) = T at hF
    -- the recorded parent of an outermost region, if any, is the container
    have htop : T.getD top = top := by
      cases T with
      | none => rfl
      | some x =>
        obtain ⟨n, hn, hfn⟩ := List.exists_of_findSome?_eq_some hT
        have hmem := (outer_eq H top hr D hD n).mp ((mem_sortNames _ _).mp hn)
        obtain ⟨b, hm, hbn⟩ := List.mem_map.mp hmem
        obtain ⟨e, he, hent⟩ := dict_get H top hr D hD b (Below.top hm)
        rw [hbn] at he
        simp only [he] at hfn
        split at hfn
        · next hcond =>
          simp only [Option.some.injEq] at hfn
          obtain ⟨_, f2, _, f4, _⟩ := entOfBlk_fields H b e hent
          have hreg : b.isRegion = true := by
            have := hcond
            simp only [Bool.and_eq_true] at this
            simpa [Blk.isRegion, f2] using this.1
          have hp := (f4 hreg).2.2.1
          have hnorm := hr.normal b (level_mem H _ _ hm).1
          simp only [normalBlk, hreg, if_true, Bool.and_eq_true, beq_iff_eq] at hnorm
          simp only [Option.getD_some]
          rw [← hfn, hp, hnorm.1.1.1.1, (level_mem H _ _ hm).2]
        · simp at hfn
    rw [htop] at hF
    split at hF
    · simp at hF
    · next out hm =>
      simp only [Except.ok.injEq, Prod.mk.injEq] at hF
      obtain ⟨h1, h2⟩ := hF
      subst h1 h2
      refine ⟨rfl, fun b => ?_⟩
      obtain ⟨hcomp, hsound⟩ := makeScfg_exact D _ _ _ _ _ hm
      exact ⟨fun hb => covered_below H top hr D hD _ _ _ b (hsound b hb) (Or.inl ⟨rfl, rfl, rfl⟩),
             fun hb => hcomp b (below_covered H top hr D hD b hb)⟩

end RoundTrip

/-! Non-vacuity: a loop region with its latch, written and read back. -/
def exIO : Hier := [
  { cont := "m", name := "0", jts := ["loop_region_0"] },
  { cont := "m", name := "2" },
  { cont := "m", name := "loop_region_0", kind := .region, jts := ["2"], rkind := "loop",
    header := "1", exiting := "1", parent := "m" },
  { cont := "loop_region_0", name := "1", jts := ["1", "2"], bes := ["1"] }]
example : ioReady exIO "m" = true := by decide

end Scfg.C15
