import Scfg.Basic
import Scfg.Model.IO
/-!
# Line codec for hierarchies (driver glue, not verified)

One hierarchy: entries separated by `;`, 13 fields separated by `|`:
`cont|name|kind|jts|bes|pay|asg|var|tbl|rkind|header|exiting|parent`;
lists are comma-separated, `asg`/`tbl` entries are `k=v`.
-/
namespace Scfg

def BKind.ofString? : String → Option BKind
  | "basic" => some .basic
  | "python_bytecode" => some .bytecode
  | "python_ast" => some .ast
  | "synth_head" => some .synthHead
  | "synth_branch" => some .synthBranch
  | "synth_tail" => some .synthTail
  | "synth_exit" => some .synthExit
  | "synth_asign" => some .synthAssign
  | "synth_return" => some .synthReturn
  | "synth_exit_latch" => some .synthLatch
  | "synth_exit_branch" => some .synthExitBranch
  | "synth_fill" => some .synthFill
  | "region" => some .region
  | _ => none

def BKind.toString : BKind → String
  | .basic => "basic"
  | .bytecode => "python_bytecode"
  | .ast => "python_ast"
  | .synthHead => "synth_head"
  | .synthBranch => "synth_branch"
  | .synthTail => "synth_tail"
  | .synthExit => "synth_exit"
  | .synthAssign => "synth_asign"
  | .synthReturn => "synth_return"
  | .synthLatch => "synth_exit_latch"
  | .synthExitBranch => "synth_exit_branch"
  | .synthFill => "synth_fill"
  | .region => "region"

def splitList (s : String) : List String := if s.isEmpty then [] else s.splitOn ","

def parseKV (s : String) : Option (String × String) :=
  match s.splitOn "=" with
  | [k, v] => some (k, v)
  | _ => none

def parseBlk (s : String) : Except String Blk :=
  match s.splitOn "|" with
  | [cont, name, kind, jts, bes, pay, asg, var, tbl, rkind, header, exiting, parent] => do
    let some k := BKind.ofString? kind | throw s!"bad kind {kind}"
    let pay ← (splitList pay).mapM fun p => match p.toInt? with
      | some i => pure i
      | none => throw s!"bad payload {p}"
    let asg ← (splitList asg).mapM fun p => match parseKV p with
      | some (k, v) => match v.toInt? with
        | some i => pure (k, i)
        | none => throw s!"bad asg {p}"
      | none => throw s!"bad asg {p}"
    let tbl ← (splitList tbl).mapM fun p => match parseKV p with
      | some (k, v) => match k.toInt? with
        | some i => pure (i, v)
        | none => throw s!"bad tbl {p}"
      | none => throw s!"bad tbl {p}"
    pure { cont, name, kind := k, jts := splitList jts, bes := splitList bes, pay, asg, var, tbl,
           rkind, header, exiting, parent }
  | fs => throw s!"bad entry ({fs.length} fields): {s}"

def parseHier (s : String) : Except String Hier :=
  if s.isEmpty || s == "-" then pure [] else (s.splitOn ";").mapM parseBlk

def commaJoin (xs : List String) : String := ",".intercalate xs

def printBlk (b : Blk) : String :=
  "|".intercalate [b.cont, b.name, b.kind.toString, commaJoin b.jts, commaJoin b.bes,
    commaJoin (b.pay.map toString), commaJoin (b.asg.map fun p => s!"{p.1}={p.2}"), b.var,
    commaJoin (b.tbl.map fun p => s!"{p.1}={p.2}"), b.rkind, b.header, b.exiting, b.parent]

def printHier (H : Hier) : String := if H.isEmpty then "-" else ";".intercalate (H.map printBlk)

/-! ## Dictionaries (`Scfg/Model/IO.lean`): entries separated by `;`, 13 fields separated by `|`:
`key|type|kind|contains|header|exiting|parent_region|table|variable|assignment|begin,end|edges|backedges` -/

open Scfg.Model in
def parseDEnt (s : String) : Except String DEnt :=
  match s.splitOn "|" with
  | [key, typ, rkind, contains, header, exiting, parent, tbl, var, asg, pay, edges, backedges] => do
    let some k := BKind.ofString? typ | throw s!"bad type {typ}"
    let pay ← (splitList pay).mapM fun p => match p.toInt? with
      | some i => pure i
      | none => throw s!"bad payload {p}"
    let asg ← (splitList asg).mapM fun p => match parseKV p with
      | some (k, v) => match v.toInt? with
        | some i => pure (k, i)
        | none => throw s!"bad asg {p}"
      | none => throw s!"bad asg {p}"
    let tbl ← (splitList tbl).mapM fun p => match parseKV p with
      | some (k, v) => match k.toInt? with
        | some i => pure (i, v)
        | none => throw s!"bad tbl {p}"
      | none => throw s!"bad tbl {p}"
    pure { key, typ := k, rkind, contains := splitList contains, header, exiting, parentRegion := parent,
           tbl, var, asg, pay, edges := splitList edges, backedges := splitList backedges }
  | fs => throw s!"bad dict entry ({fs.length} fields): {s}"

open Scfg.Model in
def parseDict (s : String) : Except String Dict :=
  if s.isEmpty || s == "-" then pure [] else (s.splitOn ";").mapM parseDEnt

open Scfg.Model in
def printDEnt (e : DEnt) : String :=
  "|".intercalate [e.key, e.typ.toString, e.rkind, commaJoin e.contains, e.header, e.exiting, e.parentRegion,
    commaJoin (e.tbl.map fun p => s!"{p.1}={p.2}"), e.var, commaJoin (e.asg.map fun p => s!"{p.1}={p.2}"),
    commaJoin (e.pay.map toString), commaJoin e.edges, commaJoin e.backedges]

open Scfg.Model in
def printDict (D : Dict) : String := if D.isEmpty then "-" else ";".intercalate (D.map printDEnt)

end Scfg
