import Scfg.Sem
/-!
# Decidable structural predicates on hierarchies

* `wf`         — C04: the region hierarchy is self-consistent
* `structured` — C03: loops and branches are proper regions
* `conserved`  — C05: original blocks are conserved
* `tablesOK`   — C06 (static part): value tables agree with the successor tuples

All are Boolean functions over the flat hierarchy; `Scfg/Props/*.lean` proves what a `true`
answer means.
-/
namespace Scfg

/-! ## Helpers -/

def nodupB : List Name → Bool
  | [] => true
  | x :: xs => !xs.contains x && nodupB xs

/-- Containers enclosing container `c`, innermost first, `c` included; stops at a name that is
    not an entry of the hierarchy (the meta level). -/
def ancestors (H : Hier) : Nat → Name → List Name
  | 0, c => [c]
  | f + 1, c => match H.get? c with
    | none => [c]
    | some r => c :: ancestors H f r.cont

/-- `n` names an entry of container `c` or of an enclosing container. -/
def inScope (H : Hier) (c n : Name) : Bool :=
  (ancestors H H.length c).any fun a => (H.getIn? a n).isSome

def regions (H : Hier) : List Blk := H.filter (·.isRegion)
def leaves (H : Hier) : List Blk := H.filter (fun b => !b.isRegion)

/-! ## C04 -/

/-- W1: names are unique across the whole hierarchy. -/
def w1 (H : Hier) : Bool := nodupB H.names

/-- W2: header and exiting block of every region lie inside it. -/
def w2 (H : Hier) : Bool :=
  (regions H).all fun r => (H.getIn? r.name r.header).isSome && (H.getIn? r.name r.exiting).isSome

/-- W3: inside a region only the declared exiting block names anything outside the region's
    own level. (Top-level entries have no region around them.) -/
def w3 (H : Hier) : Bool :=
  H.all fun b => match H.get? b.cont with
    | none => true
    | some r => r.exiting == b.name ||
        (b.jts ++ b.bes).all fun t => (H.getIn? b.cont t).isSome

/-- W4: every jump target and back edge names an entry of the same or an enclosing level
    (hence, names being unique, nothing outside a region names one of its members). -/
def w4 (H : Hier) : Bool :=
  H.all fun b => (b.jts ++ b.bes).all fun t => inScope H b.cont t

/-- W5: a region's own targets are exactly its exiting block's non-back-edge targets (for a
    nested exiting region this recurses, every region being checked); regions declare no back
    edges of their own. -/
def w5 (H : Hier) : Bool :=
  (regions H).all fun r => match H.getIn? r.name r.exiting with
    | none => false
    | some e => r.jts == e.jt && r.bes.isEmpty

/-- W6: the recorded parent of a region is the region that contains it. -/
def w6 (H : Hier) : Bool := (regions H).all fun r => r.parent == r.cont

def wf (H : Hier) : Bool := w1 H && w2 H && w3 H && w4 H && w5 H && w6 H

/-- every container an entry names is a region (the flat encoding of nesting; hypothesis of
    `Scfg.C04.walks_coincide_conv`) -/
def contsOK (H : Hier) : Bool :=
  H.all fun b => match H.get? b.cont with
    | none => true
    | some r => r.isRegion

def wfClauses (H : Hier) : List (String × Bool) :=
  [("W1-unique-names", w1 H), ("W2-header-exiting-inside", w2 H),
   ("W3-leaves-only-from-exiting", w3 H), ("W4-targets-in-scope", w4 H),
   ("W5-region-targets-eq-exiting-targets", w5 H), ("W6-parent-is-container", w6 H)]

/-! ## C03 -/

/-- In-level arcs of entry `a` of level `lvl`, back edges ignored. -/
def arcsIn (lvl : List Blk) (a : Blk) : List Name :=
  a.jt.filter fun t => lvl.any (·.name == t)

abbrev Ranks := List (Name × Nat)
def Ranks.get (rk : Ranks) (n : Name) : Option Nat := (rk.find? (·.1 == n)).map (·.2)

/-- Every in-level non-back-edge arc strictly increases the rank. -/
def ranksOK (lvl : List Blk) (rk : Ranks) : Bool :=
  lvl.all fun a => match rk.get a.name with
    | none => false
    | some ra => (arcsIn lvl a).all fun t => match rk.get t with
      | none => false
      | some rt => ra < rt

/-- Untrusted: ranks by repeated peeling of entries without unranked in-level predecessor. -/
def peel (lvl : List Blk) : Nat → Nat → List Blk → Ranks → Ranks
  | 0, _, _, rk => rk
  | f + 1, r, rest, rk =>
    let ready := rest.filter fun b =>
      !(rest.any fun a => (arcsIn lvl a).contains b.name)
    if ready.isEmpty then rk
    else peel lvl f (r + 1) (rest.filter fun b => !(ready.any (·.name == b.name)))
      (rk ++ ready.map fun b => (b.name, r))

def computeRanks (lvl : List Blk) : Ranks := peel lvl (lvl.length + 1) 0 lvl []

/-- Containers: the top name plus every region name. -/
def containers (H : Hier) (top : Name) : List Name := top :: (regions H).map (·.name)

/-- S1: at every level, ignoring declared back edges, the entries form an acyclic graph. -/
def s1 (H : Hier) (top : Name) : Bool :=
  (containers H top).all fun c => ranksOK (H.level c) (computeRanks (H.level c))

/-- The nearest enclosing `loop` region of container `c`. -/
def enclosingLoop (H : Hier) : Nat → Name → Option Blk
  | 0, _ => none
  | f + 1, c => match H.get? c with
    | none => none
    | some r => if r.rkind == "loop" then some r else enclosingLoop H f r.cont

/-- Follow `exiting` from a region down to a non-region block. -/
def innermostExiting (H : Hier) : Nat → Blk → Option Blk
  | 0, _ => none
  | f + 1, r =>
    if !r.isRegion then some r
    else match H.getIn? r.name r.exiting with
      | none => none
      | some e => innermostExiting H f e

/-- S2: back edges belong to loop regions. A leaf declares a back edge only if it is the
    innermost exiting block of its nearest enclosing loop region; it then has exactly one, which
    is one of its targets and leads to the leaf the loop's header leads to. Every loop region's
    innermost exiting block is such a latch. Regions declare no back edges. -/
def s2 (H : Hier) : Bool :=
  (H.all fun b =>
    b.bes.isEmpty ||
    (!b.isRegion &&
      match b.bes, enclosingLoop H H.length b.cont with
      | [t], some L =>
        b.jts.contains t &&
        (match innermostExiting H (H.length + 1) L with
          | some e => e.name == b.name
          | none => false) &&
        (match resolve H (H.length + 1) t, resolve H (H.length + 1) L.header with
          | some x, some y => x.name == y.name
          | _, _ => false)
      | _, _ => false)) &&
  ((regions H).all fun L =>
    L.rkind != "loop" ||
    match innermostExiting H (H.length + 1) L with
    | some e => e.bes.length == 1
    | none => false)

/-- S3: ignoring back edges, a block with more than one successor is the exiting block of a
    `head` region whose successors are pairwise distinct `branch` regions of the same level,
    each with exactly one continuation, all continuing to one common `tail` region. -/
def s3 (H : Hier) : Bool :=
  (leaves H).all fun b =>
    b.jt.length ≤ 1 ||
    match H.get? b.cont with
    | none => false
    | some hd =>
      hd.isRegion && hd.rkind == "head" && hd.exiting == b.name &&
      nodupB hd.jts &&
      match hd.jts.map (fun t => H.getIn? hd.cont t) with
      | [] => false
      | some r0 :: rest =>
        (some r0 :: rest).all (fun o => match o with
          | some r => r.isRegion && r.rkind == "branch" && r.jts.length == 1 && r.jts == r0.jts
          | none => false) &&
        (match r0.jts with
          | [t] => (match H.getIn? hd.cont t with
            | some tl => tl.isRegion && tl.rkind == "tail"
            | none => false)
          | _ => false)
      | none :: _ => false

/-- The leaf a non-back-edge target of leaf `a` leads to (through region headers). -/
def leafArcs (H : Hier) (a : Blk) : List Name :=
  a.jt.filterMap fun t => (resolve H (H.length + 1) t).map (·.name)

/-- Every walk step between leaves that is not a declared back edge strictly increases the rank. -/
def leafRanksOK (H : Hier) (rk : Ranks) : Bool :=
  (leaves H).all fun a => match rk.get a.name with
    | none => false
    | some ra => (leafArcs H a).all fun t => match rk.get t with
      | none => false
      | some rt => ra < rt

/-- Untrusted: ranks of the leaves by repeated peeling on a precomputed arc table. -/
def peelT : Nat → Nat → List (Name × List Name) → Ranks → Ranks
  | 0, _, _, rk => rk
  | f + 1, r, rest, rk =>
    let ready := rest.filter fun p => !(rest.any fun q => q.2.contains p.1)
    if ready.isEmpty then rk
    else peelT f (r + 1) (rest.filter fun p => !(ready.any (·.1 == p.1)))
      (rk ++ ready.map fun p => (p.1, r))

def computeLeafRanks (H : Hier) : Ranks :=
  let tbl := (leaves H).map fun a => (a.name, leafArcs H a)
  peelT (tbl.length + 1) 0 tbl []

/-- S4: across the whole hierarchy, the walk by name between leaf blocks is acyclic once declared
    back edges are ignored — every cycle of the walk (hence, by C01, every cycle of the input)
    takes a declared back edge, which by S2 runs from a loop region's latch to its header. -/
def s4 (H : Hier) : Bool := leafRanksOK H (computeLeafRanks H)

def structured (H : Hier) (top : Name) : Bool := s1 H top && s2 H && s3 H && s4 H

def structuredClauses (H : Hier) (top : Name) : List (String × Bool) :=
  [("S1-acyclic-without-backedges", s1 H top), ("S2-backedges-only-loop-latch-to-header", s2 H),
   ("S3-branching-only-at-head-region-exits", s3 H), ("S4-every-cycle-takes-a-backedge", s4 H)]

/-! ## C05 -/

/-- Position-wise: unchanged, or renamed to an inserted (synthetic) block or to a region. -/
def succOK (H : Hier) (old new : Name) : Bool :=
  old == new || match H.get? new with
    | some x => !x.isOrig
    | none => false

def zipAll {α β : Type} (p : α → β → Bool) : List α → List β → Bool
  | [], [] => true
  | a :: as, b :: bs => p a b && zipAll p as bs
  | _, _ => false

/-- C05: the non-synthetic, non-region entries of `H` are exactly the blocks of `G` — each once,
    same kind and payload, same number of successors in the same positional order, each
    successor unchanged or renamed to a synthetic block / region (an exit of `G` may have gained
    one edge that leads, through region headers, to a synthetic block); everything else is synthetic or a region (by definition of
    `isOrig`). -/
def conserved (G H : Hier) : Bool :=
  nodupB ((H.filter (·.isOrig)).map (·.name)) &&
  (H.filter (·.isOrig)).all (fun h => (G.get? h.name).isSome) &&
  G.all fun g =>
    match H.filter (fun h => h.name == g.name) with
    | [h] =>
      h.kind == g.kind && h.pay == g.pay && h.asg == g.asg && h.tbl == g.tbl &&
      (if g.jts.isEmpty then
        (h.jts.isEmpty || match h.jts with
          | [t] => (match resolve H (H.length + 1) t with
            | some x => !x.isOrig
            | none => false)
          | _ => false)
       else zipAll (succOK H) g.jts h.jts)
    | _ => false

/-! ## C06 (static part) -/

/-- Every table entry names one of the block's successors; every successor — every jump target
    and every declared back edge — is named by at least one entry. -/
def tableOK (b : Blk) : Bool :=
  b.tbl.all (fun p => b.jts.contains p.2) && b.jts.all (fun t => b.tbl.any (·.2 == t)) &&
  b.bes.all (fun t => b.tbl.any (·.2 == t))

/-- "After every renaming": every branching block that had a good table before an edit still
    has one afterwards. -/
def tablesPreserved (before after : Hier) : Bool :=
  after.all fun a => !a.kind.isBranching ||
    match before.find? (fun b => b.cont == a.cont && b.name == a.name) with
    | some b => !tableOK b || tableOK a
    | none => true

def tablesOK (H : Hier) : Bool := H.all fun b => !b.kind.isBranching || tableOK b

/-! ## C15 -/

/-- Everything the round trip must preserve about one entry (the container included). -/
def sameEntry (a b : Blk) : Bool :=
  a.cont == b.cont && a.name == b.name && a.kind == b.kind && a.jts == b.jts && a.bes == b.bes &&
  a.pay == b.pay && a.asg == b.asg && a.var == b.var && a.tbl == b.tbl && a.rkind == b.rkind &&
  a.header == b.header && a.exiting == b.exiting && a.parent == b.parent

/-- Same blocks with the same types, payload fields, ordered successors, back edges, tables,
    assignments, nesting (containers), headers and exiting blocks; dict insertion order is not
    part of the comparison. -/
def sameHier (H H' : Hier) : Bool :=
  H.length == H'.length && nodupB H.names && nodupB H'.names &&
  H.all fun a => H'.any (sameEntry a)

/-- C06: on every path through the hierarchy (either walk, latches consuming their variable) no
    control-variable error occurs, and the tables agree with the successor tuples. -/
def ctlOK (H : Hier) (htop : Name) : Bool :=
  reachOKc (sysName H true) Obs.isCtlErr (initName H htop true) (simFuel H H) &&
  reachOKc (sysRegion H true) Obs.isCtlErr (initRegion H htop true) (simFuel H H) &&
  tablesOK H

end Scfg
