import Scfg.Py.Syntax
/-!
# Reference semantics by compilation to a flat micro-code, and its interpreter as a `Sys`

`compileFn` translates a function body (abstract syntax) into a list of micro-instructions with
resolved jump targets; `compileCfg` does the same for a CFG of front-end blocks (run the block's
statements; with two successors decide on the last expression; stop at a return). `sysOf` turns
a micro-program into a decision-driven system: a state sits at a *decision point* (truthiness
of a symbolic value, or "does the iterator have another item"), its observation is the list of
events (atom evaluations with the abstract values they read, return) since the previous
decision.

Abstract values are *reaching definitions*: the site (atom) that produced the value, or a
constant. This keeps the state space finite, so `verifySim_sound` applies and trace equality
holds for all decision sequences of any length. The reference semantics itself is validated
against CPython path-exhaustively (harness/pysem.py).
-/
namespace Scfg.Py
open Scfg

inductive AVal
  | site (id k : Nat)
  | cst (c : Cst)
  | unbound
  deriving DecidableEq, Repr, Inhabited, Hashable

inductive Opd
  | v (x : Name)
  | c (k : Cst)
  deriving DecidableEq, Repr, Inhabited

inductive MI
  | ev (id k : Nat) (args : List Opd) (dst : Name)
  | mov (dst : Name) (src : Opd)
  | br (src : Opd) (t f : Nat)
  | jmp (t : Nat)
  | ret (src : Opd)
  /-- `next`: event, decision "has item"; on exhaustion `dst` gets the sentinel iff `sent` -/
  | next (id : Nat) (it : Name) (dst : Name) (sent : Bool) (has no : Nat)
  | notI (dst : Name) (src : Opd)
  | inI (dst : Name) (x : Name) (vals : List Int)
  | neSent (dst : Name) (x : Name)
  /-- forget temporaries (and truthiness memos of values nothing holds any more) -/
  | clr (xs : List Name)
  | halt (msg : String)
  deriving Repr, Inhabited

/-! ## Compiler (labels are resolved at the end) -/

structure CS where
  code : Array MI := #[]
  labels : Array Nat := #[]     -- label id ↦ pc
  tmp : Nat := 0

abbrev CM := StateM CS

def emit (i : MI) : CM Unit := modify fun s => { s with code := s.code.push i }
def newLabel : CM Nat := modifyGet fun s => (s.labels.size, { s with labels := s.labels.push 0 })
def place (l : Nat) : CM Unit := modify fun s => { s with labels := s.labels.set! l s.code.size }
def fresh : CM Name := modifyGet fun s => ("%t" ++ toString s.tmp, { s with tmp := s.tmp + 1 })
def tmpCount : CM Nat := do return (← get).tmp
/-- forget the temporaries allocated since `from_` -/
def clrSince (from_ : Nat) : CM Unit := do
  let n ← tmpCount
  if n > from_ then emit (.clr ((List.range (n - from_)).map fun i => "%t" ++ toString (from_ + i)))

mutual
def compileE : E → CM Opd
  | .var x => pure (.v x)
  | .cst c => pure (.c c)
  | .leaf id reads => do
    let t ← fresh
    emit (.ev id 0 (reads.map .v) t)
    pure (.v t)
  | .boolop isAnd args => do
    let t ← fresh
    let lend ← newLabel
    compileBool isAnd t lend args
    place lend
    pure (.v t)
  | .binop id l r => do
    let a ← compileE l
    let b ← compileE r
    let t ← fresh
    emit (.ev id 0 [a, b] t)
    pure (.v t)
  | .call id f args => do
    let fo ← compileE f
    let as ← compileArgs args
    let t ← fresh
    emit (.ev id 0 (fo :: as) t)
    pure (.v t)
  | .compare id left rest => do
    let a ← compileE left
    let t ← fresh
    let lend ← newLabel
    compileChain id 0 a t lend rest
    place lend
    pure (.v t)
  | .notE e => do
    -- `not e`: truthiness of the operand (a decision if it is symbolic), result a constant
    let o ← compileE e
    let t ← fresh
    let lt ← newLabel
    let lf ← newLabel
    let lend ← newLabel
    emit (.br o lt lf)
    place lt
    emit (.mov t (.c Cst.ff))
    emit (.jmp lend)
    place lf
    emit (.mov t (.c Cst.tt))
    place lend
    pure (.v t)
  | .inT x vals => do
    let t ← fresh
    emit (.inI t x vals)
    pure (.v t)
  | .neSent x => do
    let t ← fresh
    emit (.neSent t x)
    pure (.v t)
  | .iterOf id e => do
    let o ← compileE e
    let t ← fresh
    emit (.ev id 0 [o] t)
    pure (.v t)
  | .nextOf id it => do
    -- as a value (not directly assigned): sentinel on exhaustion
    let t ← fresh
    let l ← newLabel
    emit (.next id it t true l l)
    place l
    pure (.v t)
def compileArgs : List E → CM (List Opd)
  | [] => pure []
  | a :: as => do
    let o ← compileE a
    let os ← compileArgs as
    pure (o :: os)
def compileBool (isAnd : Bool) (t : Name) (lend : Nat) : List E → CM Unit
  | [] => pure ()
  | [a] => do
    let o ← compileE a
    emit (.mov t o)
  | a :: as => do
    let o ← compileE a
    emit (.mov t o)
    let lnext ← newLabel
    if isAnd then emit (.br (.v t) lnext lend) else emit (.br (.v t) lend lnext)
    place lnext
    compileBool isAnd t lend as
def compileChain (id k : Nat) (a : Opd) (t : Name) (lend : Nat) : List E → CM Unit
  | [] => pure ()
  | [c] => do
    let b ← compileE c
    emit (.ev id k [a, b] t)
  | c :: cs => do
    let b ← compileE c
    emit (.ev id k [a, b] t)
    let lnext ← newLabel
    emit (.br (.v t) lnext lend)
    place lnext
    compileChain id (k + 1) b t lend cs
end

/-- Deviations of the front end from Python's semantics that are *known findings*; the variant
    semantics reproduce them so that a failing program can be classified semantically. -/
structure Variant where
  /-- `for x in …`: `x = None` is executed before the loop -/
  forPreset : Bool := false
  /-- and/or are evaluated where `handle_expression` / `handle_bool_op` hoist them: before the
      rest of the statement, operands of a two-operand and/or eagerly -/
  feHoist : Bool := false
  deriving Repr, Inhabited, DecidableEq

/-- The front end's expression lowering (model of `handle_expression` / `handle_bool_op`): emits
    the hoisted and/or evaluations, returns the residual expression. -/
def frontendE : Nat → E → CM E
  | 0, e => pure e
  | f + 1, e =>
    let handleBoolOp (isAnd : Bool) (a b : E) : CM E := do
      let t ← fresh
      let left ← frontendE f a
      let o ← compileE left
      emit (.mov t o)
      let lrhs ← newLabel
      let lend ← newLabel
      if isAnd then emit (.br (.v t) lrhs lend) else emit (.br (.v t) lend lrhs)
      place lrhs
      let right ← frontendE f b
      let o2 ← compileE right
      emit (.mov t o2)
      place lend
      pure (.var t)
    match e with
    | .boolop isAnd [a, b] => do
      let a' ← frontendE f a
      let b' ← frontendE f b
      handleBoolOp isAnd a' b'
    | .boolop isAnd (a :: b :: c :: rest) => handleBoolOp isAnd a (.boolop isAnd (b :: c :: rest))
    | .compare id l rest => do
      let l' ← frontendE f l
      let rest' ← rest.mapM (frontendE f)
      pure (.compare id l' rest')
    | .binop id l r => do
      let l' ← frontendE f l
      let r' ← frontendE f r
      pure (.binop id l' r')
    | .call id fn args => do
      let args' ← args.mapM (frontendE f)
      pure (.call id fn args')
    | .iterOf id e => do
      let e' ← frontendE f e
      pure (.iterOf id e')
    | e => pure e

/-- expression of a statement, under a variant -/
def compileEV (v : Variant) (e : E) : CM Opd := do
  if v.feHoist then
    let r ← frontendE 64 e
    compileE r
  else compileE e

/-- enclosing loop: where `continue` and `break` go -/
structure LoopCtx where
  cont : Nat
  brk : Nat

mutual
def compileS (v : Variant) (ctx : Option LoopCtx) : S → CM Unit
  | .assign x (.nextOf id it) => do
    let l ← newLabel
    emit (.next id it x true l l)
    place l
  | .assign x e => do
    let t0 ← tmpCount
    let o ← compileEV v e
    emit (.mov x o)
    clrSince t0
  | .store id reads e => do
    let t0 ← tmpCount
    let o ← compileEV v e
    let t ← fresh
    emit (.ev id 0 (o :: reads.map .v) t)
    clrSince t0
  | .expr e => do
    let t0 ← tmpCount
    let _ ← compileEV v e
    clrSince t0
  | .ret e => do
    let o ← compileEV v e
    emit (.ret o)
  | .pass => pure ()
  | .brk => match ctx with
    | some c => emit (.jmp c.brk)
    | none => emit (.halt "break outside loop")
  | .cont => match ctx with
    | some c => emit (.jmp c.cont)
    | none => emit (.halt "continue outside loop")
  | .ifS test body orelse => do
    let t0 ← tmpCount
    let o ← compileEV v test
    let lt ← newLabel
    let lf ← newLabel
    let lend ← newLabel
    emit (.br o lt lf)
    place lt
    clrSince t0
    compileL v ctx body
    emit (.jmp lend)
    place lf
    clrSince t0
    compileL v ctx orelse
    place lend
  | .whileS test body orelse => do
    let lhead ← newLabel
    let lbody ← newLabel
    let lelse ← newLabel
    let lexit ← newLabel
    place lhead
    let t0 ← tmpCount
    let o ← compileEV v test
    emit (.br o lbody lelse)
    place lbody
    clrSince t0
    compileL v (some ⟨lhead, lexit⟩) body
    emit (.jmp lhead)
    place lelse
    clrSince t0
    compileL v ctx orelse
    place lexit
  | .forS id x e body orelse => do
    let o ← compileEV v e
    let it ← fresh
    emit (.ev id 0 [o] it)          -- iter(e)
    if v.forPreset then emit (.mov x (.c Cst.none))
    let lhead ← newLabel
    let lbody ← newLabel
    let lelse ← newLabel
    let lexit ← newLabel
    place lhead
    let t ← fresh
    emit (.next id it t false lbody lelse)
    place lbody
    emit (.mov x (.v t))
    emit (.clr [t])
    compileL v (some ⟨lhead, lexit⟩) body
    emit (.jmp lhead)
    place lelse
    compileL v ctx orelse
    place lexit
  | .unsupported w => emit (.halt ("unsupported: " ++ w))
def compileL (v : Variant) (ctx : Option LoopCtx) : List S → CM Unit
  | [] => pure ()
  | s :: ss => do
    compileS v ctx s
    compileL v ctx ss
end

def resolve (labels : Array Nat) : MI → MI
  | .br s t f => .br s (labels[t]!) (labels[f]!)
  | .jmp t => .jmp (labels[t]!)
  | .next id it d sent h n => .next id it d sent (labels[h]!) (labels[n]!)
  | i => i

abbrev MProg := Array MI

/-- A function body; falling off the end returns None (Python's implicit return). -/
def compileFn (body : List S) (v : Variant := {}) : MProg :=
  let (_, s) := (do compileL v none body; emit (.ret (.c Cst.none)) : CM Unit).run {}
  s.code.map (resolve s.labels)

/-- A CFG of front-end blocks, entry = first block. Each block: its statements; then with two
    successors decide on the test (first successor if true), with one jump there, with none the
    block must have ended in a return. -/
def compileCfg (blocks : List PBlock) : MProg :=
  let (_, s) := (do
    let ls ← blocks.mapM fun _ => newLabel
    let lab (n : Name) : Option Nat := (blocks.zip ls).find? (·.1.name == n) |>.map (·.2)
    for (b, l) in blocks.zip ls do
      place l
      emit (.clr ["%*"])
      compileL {} none b.stmts
      let o ← match b.test with
        | some e => compileE e
        | none => pure (.c Cst.none)
      match b.jts.map lab with
      | [some t, some f] => emit (.br o t f)
      | [some t] => emit (.jmp t)
      | [] => emit (.halt "fell off a block without successor")
      | _ => emit (.halt "dangling or too many successors")
    : CM Unit).run {}
  s.code.map (resolve s.labels)

/-! ## Interpreter -/

structure Ev where
  id : Nat
  k : Nat
  args : List AVal
  deriving DecidableEq, Repr, Inhabited, Hashable

abbrev Store := List (Name × AVal)

def Store.get (s : Store) (x : Name) : AVal := ((s.find? (·.1 == x)).map (·.2)).getD .unbound

def Store.set : Store → Name → AVal → Store
  | [], x, v => [(x, v)]
  | (y, w) :: r, x, v =>
    if x == y then (x, v) :: r
    else if x < y then (x, v) :: (y, w) :: r
    else (y, w) :: Store.set r x v

def opdVal (s : Store) : Opd → AVal
  | .v x => s.get x
  | .c k => .cst k

/-- `some b`: concrete truthiness; `none`: symbolic (a decision) -/
def truthOf : AVal → Option Bool
  | .cst c => some c.truthy
  | .site _ _ => none
  | .unbound => none

/-- Truthiness already decided for the current value of a site (forgotten when the site
    executes again). A value is asked for its truthiness at most once. -/
abbrev Truth := List ((Nat × Nat) × Bool)

def Truth.get (t : Truth) (k : Nat × Nat) : Option Bool := (t.find? (·.1 == k)).map (·.2)
def Truth.erase (t : Truth) (k : Nat × Nat) : Truth := t.filter (·.1 != k)
def Truth.set : Truth → (Nat × Nat) → Bool → Truth
  | [], k, b => [(k, b)]
  | (j, c) :: r, k, b =>
    if k == j then (k, b) :: r
    else if k.1 < j.1 || (k.1 == j.1 && k.2 < j.2) then (k, b) :: (j, c) :: r
    else (j, c) :: Truth.set r k b

structure MSt where
  pc : Nat
  store : Store
  evs : List Ev
  truth : Truth
  /-- `some reason` once the program has stopped -/
  done : Option String
  deriving DecidableEq, Repr, Inhabited, Hashable

/-- `some b`: truthiness is determined (constant, or already decided); `none`: a decision -/
def truthIn (t : Truth) : AVal → Option Bool
  | .cst c => some c.truthy
  | .site id k => t.get (id, k)
  | .unbound => none

def isCtlInt (v : AVal) : Option Int :=
  match v with
  | .cst c => c.repr.toInt?
  | _ => none

/-- Run deterministically until a decision point or a stop. -/
def runTo (p : MProg) : Nat → MSt → MSt
  | 0, st => { st with evs := [], done := some "diverges-without-decision" }
  | f + 1, st =>
    if st.done.isSome then st else
    match p[st.pc]? with
    | none => { st with done := some "fell off the program" }
    | some i =>
      match i with
      | .ev id k args dst =>
        let evs' := st.evs ++ [⟨id, k, args.map (opdVal st.store)⟩]
        runTo p f { st with pc := st.pc + 1, store := st.store.set dst (.site id k), evs := evs',
                            truth := st.truth.erase (id, k) }
      | .mov dst src => runTo p f { st with pc := st.pc + 1, store := st.store.set dst (opdVal st.store src) }
      | .br src t e =>
        match truthIn st.truth (opdVal st.store src) with
        | some true => runTo p f { st with pc := t }
        | some false => runTo p f { st with pc := e }
        | none => st            -- decision point
      | .jmp t => runTo p f { st with pc := t }
      | .ret src => { st with evs := st.evs ++ [⟨0, 0, [opdVal st.store src]⟩], done := some "return" }
      | .next .. => st          -- decision point
      | .notI dst src =>
        match truthOf (opdVal st.store src) with
        | some b => runTo p f { st with pc := st.pc + 1, store := st.store.set dst (.cst (if b then Cst.ff else Cst.tt)) }
        | none => { st with done := some "not on a symbolic value" }
      | .inI dst x vals =>
        match isCtlInt (st.store.get x) with
        | some i =>
          let r := if vals.contains i then Cst.tt else Cst.ff
          runTo p f { st with pc := st.pc + 1, store := st.store.set dst (.cst r) }
        | none => { st with done := some s!"`in` on a non-integer control value {x}" }
      | .neSent dst x =>
        let r := if st.store.get x == .cst Cst.sentinel then Cst.ff else Cst.tt
        runTo p f { st with pc := st.pc + 1, store := st.store.set dst (.cst r) }
      | .clr xs =>
        let store' := if xs == ["%*"] then st.store.filter fun p => !p.1.startsWith "%t"
          else st.store.filter fun p => !xs.contains p.1
        let held (k : Nat × Nat) : Bool := store'.any fun p => p.2 == .site k.1 k.2
        runTo p f { st with pc := st.pc + 1, store := store', truth := st.truth.filter fun e => held e.1 }
      | .halt m => { st with done := some m }

def runFuel (p : MProg) : Nat := 8 * p.size + 64

/-- Apply decision `d` (0 = true / has item, 1 = false / exhausted) at a decision point. -/
def decide (p : MProg) (st : MSt) (d : Nat) : MSt :=
  if st.done.isSome then st else
  match p[st.pc]? with
  | some (.br src t e) =>
    let truth' := match opdVal st.store src with
      | .site id k => st.truth.set (id, k) (d == 0)
      | _ => st.truth
    runTo p (runFuel p) { st with pc := if d == 0 then t else e, evs := [], truth := truth' }
  | some (.next id it dst sent h n) =>
    let ev : Ev := ⟨id, 1, [st.store.get it]⟩
    if d == 0 then
      runTo p (runFuel p) { st with pc := h, store := st.store.set dst (.site id 1), evs := [ev],
                                    truth := st.truth.erase (id, 1) }
    else
      let store' := if sent then st.store.set dst (.cst Cst.sentinel) else st.store
      runTo p (runFuel p) { st with pc := n, evs := [ev], store := store' }
  | _ => { st with done := some "decision at a non-decision instruction" }

def renderVal : AVal → String
  | .site id k => s!"s{id}.{k}"
  | .cst c => "c:" ++ c.repr
  | .unbound => "unbound"

def renderEvs (evs : List Ev) : String :=
  ";".intercalate (evs.map fun e => s!"e{e.id}.{e.k}({",".intercalate (e.args.map renderVal)})")

/-- The decision-driven system of a micro-program. -/
def sysOf (p : MProg) : Sys MSt where
  obs := fun st => match st.done with
    | some r => .blk (renderEvs st.evs ++ "|" ++ r) 0
    | none => .blk (renderEvs st.evs) 2
  step := decide p

def initOf (p : MProg) (params : List Name) : MSt :=
  runTo p (runFuel p) { pc := 0, store := params.foldl (fun s x => s.set x (.site 0 0)) [], evs := [], truth := [], done := none }

/-- Parameters hold distinct symbolic values (site 1000000 + position). -/
def initOfParams (p : MProg) (params : List Name) : MSt :=
  let store := (params.zip (List.range params.length)).foldl (fun s xi => Store.set s xi.1 (.site 1000000 xi.2)) []
  runTo p (runFuel p) { pc := 0, store := store, evs := [], truth := [], done := none }

def pySimOK (a b : MProg) (params : List Name) : Bool :=
  simOKc (sysOf a) (sysOf b) (initOfParams a params) (initOfParams b params) 200000

end Scfg.Py
