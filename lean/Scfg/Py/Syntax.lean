import Scfg.Sim
/-!
# Abstract syntax of the supported Python subset (and of what the code generator emits)

One language for the original function, for the instruction lists of CFG blocks, and for the
regenerated function. Expressions mirror Python's *evaluation order* exactly for the node
types the front end descends into (`and`/`or`, comparison chains, binary operators, call
arguments); every other expression is an opaque `leaf` that reads some variables.
-/
namespace Scfg.Py
open Scfg

/-- Literal constants: what matters is their identity and their truthiness. -/
structure Cst where
  repr : String
  truthy : Bool
  deriving DecidableEq, Repr, Inhabited, Hashable

def Cst.none : Cst := ⟨"None", false⟩
def Cst.tt : Cst := ⟨"True", true⟩
def Cst.ff : Cst := ⟨"False", false⟩
def Cst.sentinel : Cst := ⟨"'__scfg_sentinel__'", true⟩
def Cst.int (i : Int) : Cst := ⟨toString i, i != 0⟩

inductive E
  | var (x : Name)
  | cst (c : Cst)
  /-- opaque expression: evaluating it is one event; `reads` are the variables it loads -/
  | leaf (id : Nat) (reads : List Name)
  /-- `a and b and …` / `a or b or …` -/
  | boolop (isAnd : Bool) (args : List E)
  /-- `l op r`: l, then r, then the operation (one event) -/
  | binop (id : Nat) (l r : E)
  /-- `f(a, b)`: f, then the arguments left to right, then the call (one event) -/
  | call (id : Nat) (f : E) (args : List E)
  /-- `a < b < c`: pairwise, left to right, stops at the first false link -/
  | compare (id : Nat) (left : E) (rest : List E)
  /-- `not e` on a control value -/
  | notE (e : E)
  /-- `x in (k₁, k₂, …)` on a control value -/
  | inT (x : Name) (vals : List Int)
  /-- `x != "__scfg_sentinel__"` -/
  | neSent (x : Name)
  /-- `iter(e)` -/
  | iterOf (id : Nat) (e : E)
  /-- `next(it, "__scfg_sentinel__")` -/
  | nextOf (id : Nat) (it : Name)
  deriving Repr, Inhabited

inductive S
  /-- `x = e` (plain name target) -/
  | assign (x : Name) (e : E)
  /-- any other assignment target (attribute, subscript, tuple): value, then one store event -/
  | store (id : Nat) (reads : List Name) (e : E)
  | expr (e : E)
  | ret (e : E)
  | pass
  | brk
  | cont
  | ifS (test : E) (body orelse : List S)
  | whileS (test : E) (body orelse : List S)
  /-- `for x in e: body else: orelse` (original programs only) -/
  | forS (id : Nat) (x : Name) (e : E) (body orelse : List S)
  | unsupported (what : String)
  deriving Repr, Inhabited

/-- A CFG block of the source front end: statements, optionally a trailing test expression,
    successor names. -/
structure PBlock where
  name : Name
  stmts : List S
  test : Option E
  jts : List Name
  deriving Repr, Inhabited

end Scfg.Py
