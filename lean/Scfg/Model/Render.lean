import Scfg.Model.Iter
import Scfg.Spec.RenderSpec
/-!
# L3 model: the renderer's control flow (numba_scfg/rendering/rendering.py)

`render_block` dispatch with recursive cluster rendering (`render_region_block`) and
`render_edges` with `find_base_header`. The result is a `Spec.Drawing`: nodes with the cluster
they are drawn in, clusters with their parent cluster, edges with the dashed flag, all in the order
in which the renderer emits them. Labels are not modelled (checked per instance by the harness).
`dict(scfg)` is modelled through the model of `SCFG.__iter__` (`iterAll`); the value stored for a
name is looked up hierarchy-wide, which is what the Python dict holds whenever names are unique.
-/
namespace Scfg.Model
open Scfg Scfg.Spec

/-- `render_block` for every entry of container `c`, drawn inside cluster `cl` (`""` = top level);
    `byteflow`: the `ByteFlowRenderer`, which has no method for AST blocks. -/
def renderNodes (H : Hier) (byteflow : Bool) : Nat → Name → Name →
    M (List (Name × Name) × List (Name × Name))
  | 0, _, _ => .error ⟨"OutOfFuel", "render_block"⟩
  | f + 1, c, cl =>
    (H.level c).foldlM (fun (acc : List (Name × Name) × List (Name × Name)) b =>
      if b.isRegion then do
        let (ns, cs) ← renderNodes H byteflow f b.name b.name
        pure (acc.1 ++ ns, acc.2 ++ [(b.name, cl)] ++ cs)
      else if b.kind == .ast && byteflow then .error ⟨"AttributeError", "render_block"⟩
      else pure (acc.1 ++ [(b.name, cl)], acc.2)) ([], [])

/-- `blocks[name]` for `blocks = dict(scfg)` -/
def blocksGet (H : Hier) (order : List Name) (n : Name) : Option Blk :=
  if order.contains n then H.get? n else none

/-- `find_base_header`: `none` = `KeyError` -/
def findBaseHeader (H : Hier) (order : List Name) : Nat → Blk → Option Blk
  | 0, _ => none
  | f + 1, b =>
    if b.isRegion then
      match blocksGet H order b.header with
      | none => none
      | some h => findBaseHeader H order f h
    else some b

/-- `render_edges(scfg)` for the graph held by container `top` -/
def renderEdges (H : Hier) (top : Name) : M (List (Name × Name × Bool)) := do
  let order ← iterAll H (H.length + 2) top
  let order := dedup order
  order.foldlM (fun (acc : List (Name × Name × Bool)) n =>
    match blocksGet H order n with
    | none => pure acc
    | some src =>
      if src.isRegion then pure acc
      else do
        let acc ← src.jt.foldlM (fun (acc : List (Name × Name × Bool)) t =>
          match (blocksGet H order t).bind (findBaseHeader H order (H.length + 1)) with
          | none => pure acc                                   -- KeyError: continue
          | some d =>
            if order.contains d.name then pure (acc ++ [(src.name, d.name, false)])
            else .error ⟨"Exception", "render_edges"⟩) acc
        src.bes.foldlM (fun (acc : List (Name × Name × Bool)) t =>
          match (blocksGet H order t).bind (findBaseHeader H order (H.length + 1)) with
          | none => .error (keyErrorAt "render_edges")
          | some d =>
            if order.contains d.name then pure (acc ++ [(src.name, d.name, true)])
            else .error ⟨"Exception", "render_edges"⟩) acc) []

/-- the whole drawing of `SCFGRenderer(scfg)` / `ByteFlowRenderer().render_byteflow(flow)` -/
def renderM (H : Hier) (top : Name) (byteflow : Bool) : M Drawing := do
  let (ns, cs) ← renderNodes H byteflow (H.length + 2) top ""
  let es ← renderEdges H top
  pure { nodes := ns, clusters := cs, edges := es }

end Scfg.Model
