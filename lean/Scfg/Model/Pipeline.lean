import Scfg.Model.Queries
import Scfg.Model.Iter
/-!
# L3 model: loop restructuring, region extraction, branch restructuring, the pipeline

Executable model of `loop_restructure_helper`, `restructure_loop`, `update_exiting`,
`extract_region`, `find_head_blocks`, `find_branch_regions`, `find_tail_blocks`,
`_iter_branch_regions`, `restructure_branch` (numba_scfg/core/transformations.py) and of
`SCFG.restructure_loop / restructure_branch / restructure` on the flat hierarchy, abort sites
included. Tied to the code by exact dump comparison (names, dict order per container, tables,
name-generator state) on all closed CFGs of the exhaustive scope — harness/props/c02.py.
-/
namespace Scfg.Model
open Scfg

def lookupTbl (t : List (Int × Name)) (v : Name) : Int :=
  match t.find? (·.2 == v) with
  | some p => p.1
  | none => -1

def enumTbl (xs : List Name) : List (Int × Name) :=
  (List.range xs.length).zip xs |>.map fun p => (Int.ofNat p.1, p.2)

/-- `loop_restructure_helper(scfg, loop)` on container `c`; returns the state and the (grown)
    loop member set. -/
def loopHelper (st : St) (c : Name) (loop : List Name) : M (St × List Name) := do
  let (headers, entries) ← headersEntries st.H (st.H.length + 2) c loop
  let (exiting, exits) ← exitingExits st.H c loop
  let unified := headers.length > 1
  let (st, loop, loopHead) ← if unified then do
      let (n, ng) := st.ng.newBlockName "synth_head"
      let st' ← insertCtl { st with ng := ng } c n entries headers
      pure (st', loop ++ [n], n)
    else match headers with
      | [h] => pure (st, loop, h)
      | _ => throw ⟨"StopIteration", "loop_restructure_helper"⟩
  let backedgeBlocks ← loop.filterM fun b => do
    let blk ← getIn "loop_restructure_helper" st.H c b
    pure (blk.jt.any headers.contains)
  match backedgeBlocks, exiting with
  | [b], [e] =>
    if b == e then
      let (blk, H1) ← popIn "loop_restructure_helper" st.H c b
      let blk' := if blk.jt.contains loopHead then { blk with bes := [loopHead] } else blk
      if blk.jt.contains loopHead && !blk.bes.isEmpty then throw (assertionAt "declare_backedge")
      return ({ st with H := putIn H1 blk' }, loop)
  | _, _ => pure ()
  let (latch, ng) := st.ng.newBlockName "synth_exit_latch"
  let needsExit := exits.length > 1
  let (synthExit, ng) := if needsExit then ng.newBlockName "synth_exit" else ("", ng)
  let headBlk ← if unified then getIn "loop_restructure_helper" st.H c loopHead else pure default
  let (exitVar, ng) := if unified then (headBlk.var, ng) else ng.newVarName "exit"
  let (beVar, ng) := ng.newVarName "backedge"
  let exitTbl := enumTbl exits
  let exitTarget := if needsExit then synthExit else exits.headD ""
  if !needsExit && exits.isEmpty then throw ⟨"StopIteration", "loop_restructure_helper"⟩
  let beTbl : List (Int × Name) := [(0, loopHead), (1, exitTarget)]
  let headerTbl := if unified then headBlk.tbl else []
  let d ← doms st.H c
  let mut H := st.H
  let mut ng := ng
  let mut newBlocks : List Name := []
  for name in sortNames loop do
    if exiting.contains name || backedgeBlocks.contains name then
      let blk0 ← getIn "loop_restructure_helper" H c name
      let mut newJt := blk0.jt
      for jt in blk0.jt do
        if exits.contains jt then
          let (an, ng') := ng.newBlockName "synth_asign"
          ng := ng'
          newBlocks := newBlocks ++ [an]
          let va := (if needsExit then [(exitVar, lookupTbl exitTbl jt)] else []) ++
                    [(beVar, lookupTbl beTbl exitTarget)]
          H := putIn H { cont := c, name := an, kind := .synthAssign, jts := [latch], asg := va }
          match idxOf newJt jt with
          | some i => newJt := newJt.set i an
          | none => throw ⟨"ValueError", "loop_restructure_helper"⟩
        else if headers.contains jt && (!(d.get jt).contains name || name == jt) then
          let (an, ng') := ng.newBlockName "synth_asign"
          ng := ng'
          newBlocks := newBlocks ++ [an]
          let va := [(beVar, lookupTbl beTbl loopHead)] ++
                    (if needsExit || unified then [(exitVar, lookupTbl headerTbl jt)] else [])
          let (blk, H1) ← popIn "loop_restructure_helper" H c name
          let jts := headers.foldl (fun js h => js.erase h) blk.jt
          let blk' ← replaceJts blk jts
          H := putIn H1 blk'
          H := putIn H { cont := c, name := an, kind := .synthAssign, jts := [latch], asg := va }
          match idxOf newJt jt with
          | some i => newJt := newJt.set i an
          | none => throw ⟨"ValueError", "loop_restructure_helper"⟩
      let (blk, H1) ← popIn "loop_restructure_helper" H c name
      let blk' ← replaceJts blk newJt
      H := putIn H1 blk'
  H := putIn H { cont := c, name := latch, kind := .synthLatch, jts := [exitTarget, loopHead],
                 bes := [loopHead], var := beVar, tbl := beTbl }
  if needsExit then
    H := putIn H { cont := c, name := synthExit, kind := .synthExitBranch, jts := exits,
                   var := exitVar, tbl := exitTbl }
  return ({ H := H, ng := ng }, loop ++ newBlocks ++ [latch])

/-- `update_exiting(region_block, new_region_header, new_region_name)` -/
def updateExiting (H : Hier) : Nat → Blk → Name → Name → M Hier
  | 0, _, _, _ => .error ⟨"OutOfFuel", "update_exiting"⟩
  | f + 1, region, hdr, rname => do
    let (e, H1) ← popIn "update_exiting" H region.name region.exiting
    let ren (xs : List Name) := xs.map fun s => if s == hdr then rname else s
    let e1 ← replaceJts e (ren e.jts)
    let e2 := { e1 with bes := ren e1.bes }
    let H2 ← if e2.isRegion then updateExiting H1 f e2 hdr rname else pure H1
    pure (putIn H2 e2)

/-- `extract_region(scfg, region_blocks, region_kind, parent_region)` on container `c`. -/
def extractRegion (st : St) (c : Name) (blocks : List Name) (kind : String) : M St := do
  let (headers, entries) ← headersEntries st.H (st.H.length + 2) c blocks
  let (exiting, _) ← exitingExits st.H c blocks
  let hdr ← match headers with
    | [h] => pure h
    | _ => throw (assertionAt "extract_region")
  let ex ← match exiting with
    | [e] => pure e
    | _ => throw (assertionAt "extract_region")
  let (rname, ng) := st.ng.newRegionName kind
  -- `SCFG(...)` of the sub-graph draws a meta region name
  let (_, ng) := ng.newRegionName "meta"
  let mut H := st.H
  for name in entries do
    if !(hasIn H c name) then
      if (H.get? c).isNone then throw (assertionAt "extract_region")
      continue
    let (entry, H1) ← popIn "extract_region" H c name
    let ren (xs : List Name) := xs.map fun s => if s == hdr then rname else s
    let e1 ← replaceJts entry (ren entry.jts)
    let e2 := { e1 with bes := ren e1.bes }
    let H2 ← if e2.isRegion then updateExiting H1 (H1.length + 1) e2 hdr rname else pure H1
    H := putIn H2 e2
  let exBlk ← getIn "extract_region" H c ex
  let region : Blk := { cont := c, name := rname, kind := .region, jts := exBlk.jt, rkind := kind,
                        header := hdr, exiting := ex, parent := c }
  -- members move into the region's sub-graph in sorted order
  let members ← (sortNames blocks).mapM fun n => getIn "extract_region" H c n
  let H1 := H.filter fun b => !(b.cont == c && blocks.contains b.name)
  let moved := members.map fun b =>
    if b.isRegion then { b with cont := rname, parent := rname } else { b with cont := rname }
  let H2 := H1 ++ [region] ++ moved
  -- header / exiting of the parent region follow the new region
  let H3 := H2.map fun b =>
    if b.name == c && b.isRegion then
      { b with header := if b.header == hdr then rname else b.header,
               exiting := if b.exiting == ex then rname else b.exiting }
    else b
  pure { H := H3, ng := ng }

/-- `restructure_loop(parent_region)` on container `c`. -/
def restructureLoopAt (st : St) (c : Name) : M St := do
  let sccs ← computeScc st.H c
  let loops ← sccs.filterM fun nodes => match nodes with
    | [n] => do
      let b ← getIn "restructure_loop" st.H c n
      pure (b.jt.contains n)
    | _ => pure (nodes.length > 1)
  loops.foldlM (fun st loop => do
    let (st1, loop1) ← loopHelper st c loop
    extractRegion st1 c loop1 "loop") st

/-- Pre-order walk over the sub-regions, each processed before its own sub-regions are listed
    (`iter_subregions` is lazy). -/
def forSubregions (f : St → Name → M St) : Nat → St → Name → M St
  | 0, _, _ => .error ⟨"OutOfFuel", "iter_subregions"⟩
  | fuel + 1, st, c => do
    -- the dict of level `c` is not changed while its regions are processed one by one
    let regs := (st.H.level c).filter (·.isRegion) |>.map (·.name)
    regs.foldlM (fun st r => do
      let st1 ← f st r
      forSubregions f fuel st1 r) st

def restructureLoop (st : St) (top : Name) : M St := do
  let st1 ← restructureLoopAt st top
  forSubregions restructureLoopAt (st1.H.length + 4) st1 top

/-! ## Branch restructuring -/

def findHeadBlocks (H : Hier) (c : Name) (begin : Name) : M (List Name) := do
  let h ← findHead H c
  let rec go : Nat → Name → List Name → M (List Name)
    | 0, _, _ => .error ⟨"OutOfFuel", "find_head_blocks"⟩
    | f + 1, cur, acc =>
      let acc := if acc.contains cur then acc else acc ++ [cur]
      if cur == begin then .ok acc
      else match H.getIn? c cur with
        | none => .error (keyErrorAt "find_head_blocks")
        | some b => match b.jt with
          | [t] => go f t acc
          | _ => .error (assertionAt "find_head_blocks")
  go ((H.level c).length + 2) h []

/-- `find_branch_regions`: per successor of `begin`, `none` (empty arm) or (start, members). -/
def findBranchRegions (H : Hier) (c : Name) (begin end_ : Name) : M (List (Option (Name × List Name))) := do
  let d ← doms H c
  let b ← getIn "find_branch_regions" H c begin
  b.jt.mapM fun bra => do
    let reachedFromSibling ← b.jt.anyM fun jt =>
      if jt != bra then reachDfs H c jt bra else pure false
    if reachedFromSibling then pure none
    else pure (some (bra, (d.filter fun p => p.2.contains bra && !p.2.contains end_).map (·.1)))

def findTailBlocks (H : Hier) (c : Name) (begin : Name) (heads : List Name)
    (branches : List (Option (Name × List Name))) : List Name :=
  let all := (H.level c).map (·.name)
  let drop := heads ++ (branches.foldl (fun acc r => match r with
    | none => acc
    | some (b, sub) => acc ++ [b] ++ sub) []) ++ [begin]
  all.filter fun n => !drop.contains n

/-- the first (begin, end) pair `_iter_branch_regions` yields -/
def firstBranchRegion (H : Hier) (c : Name) : M (Option (Name × Name)) := do
  let d ← doms H c
  let pd ← postDoms H c
  let pim ← immDoms pd
  let im ← immDoms d
  let view ← viewIter H c
  let rec go : List Name → M (Option (Name × Name))
    | [] => pure none
    | n :: rest => do
      let b ← getIn "_iter_branch_regions" H c n
      if b.jt.length > 1 then
        match pim.find? (·.1 == n) with
        | some (_, e) =>
          match im.find? (·.1 == e) with
          | none => throw (keyErrorAt "_iter_branch_regions")
          | some (_, x) => if x == n then pure (some (n, e)) else go rest
        | none => go rest
      else go rest
  go view

/-- `restructure_branch(parent_region)` on container `c`. -/
def restructureBranchAt (st : St) (c : Name) : M St := do
  let some (begin, end0) ← firstBranchRegion st.H c | pure st
  let heads ← findHeadBlocks st.H c begin
  let branches ← findBranchRegions st.H c begin end0
  let tails := findTailBlocks st.H c begin heads branches
  let (theaders, tentries) ← headersEntries st.H (st.H.length + 2) c tails
  let (st, end_) ← if theaders.length > 1 then do
      let (n, ng) := st.ng.newBlockName "synth_head"
      let st' ← insertCtl { st with ng := ng } c n tentries theaders
      pure (st', n)
    else pure (st, end0)
  let heads ← findHeadBlocks st.H c begin
  let branches ← findBranchRegions st.H c begin end_
  let tails := findTailBlocks st.H c begin heads branches
  let st ← branches.foldlM (fun st region => match region with
    | some (_, inner) =>
      if !inner.isEmpty then do
        let (exiting, _) ← exitingExits st.H c inner
        let (th, _) ← headersEntries st.H (st.H.length + 2) c tails
        let (st', _, _) ← joinTailsExits st c exiting th
        pure st'
      else pure st
    | none => do
      let (th, _) ← headersEntries st.H (st.H.length + 2) c tails
      let (n, ng) := st.ng.newBlockName "synth_fill"
      let H ← insertBlock st.H c .synthFill n [begin] th
      pure { H := H, ng := ng }) st
  let heads ← findHeadBlocks st.H c begin
  let branches ← findBranchRegions st.H c begin end_
  let tails := findTailBlocks st.H c begin heads branches
  let st ← extractRegion st c heads "head"
  let st ← branches.foldlM (fun st region => match region with
    | some (_, inner) => if !inner.isEmpty then extractRegion st c inner "branch" else pure st
    | none => pure st) st
  extractRegion st c tails "tail"

def restructureBranch (st : St) (top : Name) : M St := do
  let st1 ← restructureBranchAt st top
  forSubregions restructureBranchAt (st1.H.length + 4) st1 top

/-- `SCFG.restructure()` -/
def restructure (st : St) (top : Name) : M St := do
  let st ← joinReturns st top
  let st ← restructureLoop st top
  restructureBranch st top

end Scfg.Model
