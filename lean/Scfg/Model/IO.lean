import Scfg.Model.Queries
/-!
# L3 model: `SCFGIO.to_dict` / `SCFGIO.from_dict` (numba_scfg/core/datastructures/scfg.py)

A dictionary `{"blocks": …, "edges": …, "backedges": …}` is modelled as a list of `DEnt`, one per
key of `blocks`, in the insertion order of that Python `dict`; the per-key lists of `edges` and
`backedges` are carried in the same record. Only the keys the writer emits for a block's type are
represented (the reader passes unknown keys to the block constructor, which raises; that part of
the domain — hand-written dictionaries with stray keys — is outside this model).

The fresh name of the outermost "meta" region comes from the name generator (it depends on how
many nested graphs were built); it is a parameter of `fromDict`, the recorded `parent_region` of an
outermost region overrides it exactly as in the code.
-/
namespace Scfg.Model
open Scfg

structure DEnt where
  key : Name
  typ : BKind := .basic
  /-- regions: `kind`, `contains` (sorted), `header`, `exiting`, `parent_region` -/
  rkind : Name := ""
  contains : List Name := []
  header : Name := ""
  exiting : Name := ""
  parentRegion : Name := ""
  /-- branching blocks: `branch_value_table`, `variable` -/
  tbl : List (Int × Name) := []
  var : Name := ""
  /-- assignment blocks: `variable_assignment` -/
  asg : List (Name × Int) := []
  /-- bytecode blocks: `begin`, `end` -/
  pay : List Int := []
  edges : List Name := []
  backedges : List Name := []
  deriving DecidableEq, Repr, Inhabited

abbrev Dict := List DEnt

def Dict.get? (D : Dict) (k : Name) : Option DEnt := D.find? (·.key == k)

/-! ## Writer -/

/-- the per-type fields `to_dict` writes for one block -/
def entOfBlk (H : Hier) (b : Blk) : M DEnt :=
  let base : DEnt := { key := b.name, typ := b.kind, edges := b.jts, backedges := b.bes }
  if b.kind == .ast then .error ⟨"TypeError", "reverse_lookup"⟩
  else if b.isRegion then
    if b.parent == "" then .error (assertionAt "to_dict")
    else .ok { base with rkind := b.rkind, contains := sortNames ((H.level b.name).map (·.name)),
                         header := b.header, exiting := b.exiting, parentRegion := b.parent }
  else if b.kind.isBranching then .ok { base with tbl := b.tbl, var := b.var }
  else if b.kind == .synthAssign then .ok { base with asg := b.asg }
  else if b.kind == .bytecode then .ok { base with pay := b.pay }
  else .ok base

/-- the work-list loop of `to_dict`; the Python list `q` is kept with its end (where `pop()`
    takes from) at the head, so `q.extend(items)` is `items.reverse ++ q` -/
def toDictGo (H : Hier) : Nat → List Blk → List Name → Dict → M Dict
  | 0, _, _, _ => .error ⟨"OutOfFuel", "to_dict"⟩
  | _ + 1, [], _, out => .ok out
  | f + 1, b :: q, seen, out =>
    if mem seen b.name then toDictGo H f q seen out
    else match entOfBlk H b with
      | .error e => .error e
      | .ok e =>
        let q' := if b.isRegion then (H.level b.name).reverse ++ q else q
        toDictGo H f q' (b.name :: seen) (out ++ [e])

/-- `SCFGIO.to_dict(scfg)` for the graph held by container `top` -/
def toDict (H : Hier) (top : Name) : M Dict :=
  toDictGo H (2 * H.length + 2) (H.level top).reverse [] []

/-! ## Reader -/

/-- `find_outer_graph`: the keys no region lists under `contains` -/
def outerGraph (D : Dict) : List Name :=
  (D.map (·.key)).filter fun k => !(D.any fun e => e.contains.contains k)

/-- the block object `make_scfg` constructs from one entry, placed in container `c`; the parent
    link of a region is re-established as the enclosing graph's region -/
def blkOfEnt (c : Name) (e : DEnt) : Blk :=
  let base : Blk := { cont := c, name := e.key, kind := e.typ, jts := e.edges, bes := e.backedges }
  if e.typ.isRegion then
    { base with rkind := e.rkind, header := e.header, exiting := e.exiting, parent := c }
  else if e.typ.isBranching then { base with tbl := e.tbl, var := e.var }
  else if e.typ == .synthAssign then { base with asg := e.asg }
  else if e.typ == .bytecode then { base with pay := e.pay }
  else base

/-- `make_scfg(graph_dict, curr_heads, …, exiting)`: one level, breadth first from the sorted
    heads, not continuing past the exiting block; regions are built recursively from their
    header. The result lists the level's entries in insertion order, each region followed by the
    entries below it (the exporter's order). -/
def makeScfg (D : Dict) : Nat → Name → List Name → Option Name → M (List Blk)
  | 0, _, _, _ => .error ⟨"OutOfFuel", "make_scfg"⟩
  | f + 1, c, heads, ex =>
    let rec go : Nat → List Name → List Name → List Blk → M (List Blk)
      | 0, _, _, _ => .error ⟨"OutOfFuel", "make_scfg"⟩
      | _ + 1, [], _, out => .ok out
      | g + 1, n :: q, seen, out =>
        if mem seen n then go g q seen out
        else match D.get? n with
          | none => .error (keyErrorAt "extract_block_info")
          | some e => do
            let inner ← if e.typ.isRegion then makeScfg D f e.key [e.header] (some e.exiting) else pure []
            let q' := if some n == ex then q else q ++ e.edges
            go g q' (n :: seen) (out ++ [blkOfEnt c e] ++ inner)
    go (D.length + (D.foldl (fun n e => n + e.edges.length) 0) + heads.length + 4) heads [] []

/-- `SCFGIO.from_dict(graph_dict)`; `fresh` is the name the generator hands out for the outermost
    meta region. Returns the name of the outermost container and the hierarchy. -/
def fromDict (D : Dict) (fresh : Name) : M (Name × Hier) := do
  let outer := sortNames (outerGraph D)
  if outer.isEmpty then .error (assertionAt "from_dict")
  else
    let recorded := outer.findSome? fun n => match D.get? n with
      | some e => if e.typ.isRegion && e.parentRegion != "" then some e.parentRegion else none
      | none => none
    let top := recorded.getD fresh
    let H ← makeScfg D (D.length + 2) top outer none
    pure (top, H)

end Scfg.Model
