import Scfg.Model.Edit
/-!
# L3 model: graph queries on one level

`find_head`, `find_headers_and_entries`, `find_exiting_and_exits`, `is_reachable_dfs`,
`compute_scc` (vendored iterative Tarjan), `_doms` / `_post_doms` /
`_find_dominators_internal`, `_imm_doms`. Sets are modelled as lists; wherever the Python
iterates a `set` in hash order the consumer is order-insensitive (see C12) and the model uses
a fixed order.
-/
namespace Scfg.Model
open Scfg

/-- `find_head` on container `c`. -/
def findHead (H : Hier) (c : Name) : M Name :=
  let lvl := H.level c
  match lvl.filter (fun b => !(lvl.any fun a => a.jt.contains b.name)) with
  | [h] => .ok h.name
  | _ => .error (assertionAt "find_head")

def mem (xs : List Name) (x : Name) : Bool := xs.contains x

/-- `find_headers_and_entries(subgraph)` on container `c`; both results sorted. -/
def headersEntries (H : Hier) : Nat → Name → List Name → M (List Name × List Name)
  | 0, _, _ => .error ⟨"OutOfFuel", "find_headers_and_entries"⟩
  | f + 1, c, sub => do
    let lvl := H.level c
    let outside := lvl.filter fun b => !mem sub b.name
    let headers := dedup (outside.foldl (fun acc o => acc ++ o.jts.filter (mem sub)) [])
    let entries := (outside.filter fun o => o.jts.any (mem sub)).map (·.name)
    if !headers.isEmpty then pure (sortNames headers, sortNames entries)
    else do
      let h ← findHead H c
      -- the region this container is; `none` = the meta region
      match H.get? c with
      | none => pure ([h], sortNames entries)
      | some r =>
        let (_, es) ← headersEntries H f r.cont [r.name]
        pure ([h], es)

/-- `find_exiting_and_exits(subgraph)` on container `c`. -/
def exitingExits (H : Hier) (c : Name) (sub : List Name) : M (List Name × List Name) := do
  let (exiting, exits) ← sub.foldlM (fun (acc : List Name × List Name) n => do
    let b ← getIn "find_exiting_and_exits" H c n
    let out := b.jt.filter fun t => !mem sub t
    let exiting := if !out.isEmpty || b.jt.isEmpty then acc.1 ++ [n] else acc.1
    pure (exiting, acc.2 ++ out)) ([], [])
  pure (sortNames (dedup exiting), sortNames (dedup exits))

/-- The work-list loop of `is_reachable_dfs`; the stack is kept with its top (Python's list end)
    at the head, so `extend(xs)` is `xs.reverse ++ stack`. -/
def reachGo (succ : Name → List Name) (end_ : Name) : Nat → List Name → List Name → M Bool
  | 0, _, _ => .error ⟨"OutOfFuel", "is_reachable_dfs"⟩
  | _ + 1, [], _ => .ok false
  | f + 1, blk :: stack, seen =>
    if seen.contains blk then reachGo succ end_ f stack seen
    else if blk == end_ then .ok true
    else reachGo succ end_ f ((succ blk).reverse ++ stack) (blk :: seen)

/-- successors the loop follows from a name: its `jump_targets` if it is in the graph -/
def succIn' (H : Hier) (c : Name) (n : Name) : List Name :=
  match H.getIn? c n with
  | some x => x.jt
  | none => []

/-- `is_reachable_dfs(begin, end)` on container `c`. -/
def reachDfs (H : Hier) (c : Name) (begin end_ : Name) : M Bool := do
  let b ← getIn "is_reachable_dfs" H c begin
  let lvl := H.level c
  reachGo (succIn' H c) end_
    ((lvl.foldl (fun n x => n + x.jts.length) 0) + lvl.length + b.jts.length + 4) b.jt.reverse []

/-! ## Tarjan (networkx_vendored/scc.py), literally -/

structure TarjanSt where
  preorder : List (Name × Nat) := []
  lowlink : List (Name × Nat) := []
  found : List Name := []
  sccQueue : List Name := []
  i : Nat := 0
  out : List (List Name) := []

def lookupN (t : List (Name × Nat)) (k : Name) : Option Nat := (t.find? (·.1 == k)).map (·.2)
def setN (t : List (Name × Nat)) (k : Name) (v : Nat) : List (Name × Nat) :=
  if t.any (·.1 == k) then t.map fun p => if p.1 == k then (k, v) else p else t ++ [(k, v)]

/-- in-graph successors of `v` (`GraphWrap.__getitem__`) -/
def succIn (lvl : List Blk) (v : Name) : List Name :=
  match lvl.find? (·.name == v) with
  | some b => b.jt.filter fun t => lvl.any (·.name == t)
  | none => []

/-- Pops the tail of `scc_queue` while its preorder is greater than `pv` (on the reversed queue). -/
def popRev (pre : List (Name × Nat)) (pv : Nat) : List Name → List Name → List Name × List Name
  | [], acc => ([], acc)
  | k :: r, acc =>
    if (lookupN pre k).getD 0 > pv then popRev pre pv r (acc ++ [k]) else (k :: r, acc)

def popQueue (pre : List (Name × Nat)) (pv : Nat) (q : List Name) : List Name × List Name :=
  let (r, acc) := popRev pre pv q.reverse []
  (r.reverse, acc)

def tarjanInner (lvl : List Blk) : Nat → List Name → TarjanSt → M TarjanSt
  | 0, _, _ => .error ⟨"OutOfFuel", "scc"⟩
  | _ + 1, [], st => .ok st
  | f + 1, queue, st =>
    let v := queue.getLast!
    let st := if (lookupN st.preorder v).isNone then
      { st with i := st.i + 1, preorder := setN st.preorder v (st.i + 1) } else st
    let ws := succIn lvl v
    match ws.find? (fun w => (lookupN st.preorder w).isNone) with
    | some w => tarjanInner lvl f (queue ++ [w]) st
    | none =>
      let pv := (lookupN st.preorder v).getD 0
      let low := ws.foldl (fun low w =>
        if !mem st.found w then
          let pw := (lookupN st.preorder w).getD 0
          if pw > pv then min low ((lookupN st.lowlink w).getD 0) else min low pw
        else low) pv
      let st := { st with lowlink := setN st.lowlink v low }
      let queue' := queue.dropLast
      if low == pv then
        let (q', comp) := popQueue st.preorder pv st.sccQueue
        let scc := v :: comp
        tarjanInner lvl f queue' { st with sccQueue := q', found := st.found ++ scc, out := st.out ++ [scc] }
      else
        tarjanInner lvl f queue' { st with sccQueue := st.sccQueue ++ [v] }

/-- `compute_scc()` on container `c`: the components in the order they are yielded. -/
def computeScc (H : Hier) (c : Name) : M (List (List Name)) := do
  let lvl := H.level c
  let fuel := 4 * (lvl.length + lvl.foldl (fun n x => n + x.jts.length) 0) + 8
  let st ← lvl.foldlM (fun (st : TarjanSt) b =>
    if mem st.found b.name then pure st else tarjanInner lvl fuel [b.name] st) {}
  pure st.out

/-! ## Dominators -/

abbrev SetMap := List (Name × List Name)
def SetMap.get (m : SetMap) (k : Name) : List Name := ((m.find? (·.1 == k)).map (·.2)).getD []
def SetMap.set (m : SetMap) (k : Name) (v : List Name) : SetMap :=
  if m.any (·.1 == k) then m.map fun p => if p.1 == k then (k, v) else p else m ++ [(k, v)]

def inter (a b : List Name) : List Name := a.filter (mem b)

/-- `{n} | reduce(intersection, [doms[p] for p in preds])` -/
def newDomsOf (d : SetMap) (preds : Name → List Name) (n : Name) : List Name :=
  match preds n with
  | [] => [n]
  | p :: rest => dedup (n :: rest.foldl (fun acc q => inter acc (d.get q)) (d.get p))

/-- set equality of two duplicate-free lists, as the code's `!=` on sets -/
def sameSetL (a b : List Name) : Bool := a.length == b.length && a.all (mem b)

/-- the work-list loop of `_find_dominators_internal` (top of the Python list = last element) -/
def domsGo (entries : List Name) (preds succs : Name → List Name) : Nat → List Name → SetMap → M SetMap
  | 0, _, _ => .error ⟨"OutOfFuel", "_find_dominators_internal"⟩
  | f + 1, todo, d =>
    match todo.getLast? with
    | none => .ok d
    | some n =>
      let todo' := todo.dropLast
      if mem entries n then domsGo entries preds succs f todo' d
      else
        let newDoms := newDomsOf d preds n
        let old := d.get n
        if sameSetL newDoms old then domsGo entries preds succs f todo' d
        else if !(newDoms.length < old.length) then .error (assertionAt "_find_dominators_internal")
        else domsGo entries preds succs f (todo' ++ succs n) (d.set n newDoms)

/-- `_find_dominators_internal(entries, nodes, preds_table, succs_table)` -/
def domsInternal (entries nodes : List Name) (preds succs : Name → List Name) : M SetMap :=
  if entries.isEmpty then .error ⟨"RuntimeError", "_find_dominators_internal"⟩
  else
    let doms0 : SetMap := nodes.map fun n => if mem entries n then (n, [n]) else (n, nodes)
    let todo0 := nodes.filter fun n => !mem entries n
    domsGo entries preds succs (nodes.length * nodes.length * (nodes.length + 2) + 16) todo0 doms0

def inLevelSuccs (lvl : List Blk) (n : Name) : List Name := dedup (succIn lvl n)
def inLevelPreds (lvl : List Blk) (n : Name) : List Name :=
  (lvl.filter fun b => (succIn lvl b.name).contains n).map (·.name)

/-- `_doms(scfg)` -/
def doms (H : Hier) (c : Name) : M SetMap :=
  let lvl := H.level c
  let nodes := lvl.map (·.name)
  let entries := nodes.filter fun n => (inLevelPreds lvl n).isEmpty
  domsInternal entries nodes (inLevelPreds lvl) (inLevelSuccs lvl)

/-- `_post_doms(scfg)` -/
def postDoms (H : Hier) (c : Name) : M SetMap :=
  let lvl := H.level c
  let nodes := lvl.map (·.name)
  let entries := nodes.filter fun n => (inLevelSuccs lvl n).isEmpty
  domsInternal entries nodes (inLevelSuccs lvl) (inLevelPreds lvl)

/-- `_imm_doms(doms)`: returns the (node, immediate dominator) pairs, in dict order. -/
def immDoms (d : SetMap) : M (List (Name × Name)) := do
  let idoms0 : SetMap := d.map fun p => (p.1, p.2.filter (· != p.1))
  let pass (m : SetMap) : SetMap × Bool :=
    m.foldl (fun (acc : SetMap × Bool) p =>
      let cur := acc.1
      let vs := cur.get p.1
      -- `for v in list(vs): vs -= idoms[v]` (in-place, against the current table)
      let vs' := vs.foldl (fun s v => s.filter (fun x => !mem (cur.get v) x)) vs
      (cur.set p.1 vs', acc.2 || vs'.length < vs.length)) (m, false)
  let rec go : Nat → SetMap → M SetMap
    | 0, _ => .error ⟨"OutOfFuel", "_imm_doms"⟩
    | f + 1, m =>
      let (m', changed) := pass m
      if changed then go f m' else .ok m'
  let idoms ← go (d.length * d.length + 4) idoms0
  idoms.foldlM (fun out p =>
    match p.2 with
    | [] => pure out
    | [v] => pure (out ++ [(p.1, v)])
    | _ => .error ⟨"ValueError", "_imm_doms"⟩) []

end Scfg.Model
