import Scfg.Model.Pipeline
import Scfg.Model.Ast2Cfg
/-!
# L3 model: code generation (`SCFG2ASTTransformer`) and the whole source round trip

`codegen` on the flat hierarchy with AST payloads (instruction lists of the original blocks),
producing abstract statements; `roundtrip` chains the models of the front end, of
restructuring and of code generation. Compared token-for-token with the abstraction of the
real regenerated function (harness/props/c07.py).
-/
namespace Scfg.Model
open Scfg Scfg.Py

abbrev Payload := List (Name × List Instr)

def Payload.get (p : Payload) (n : Name) : List Instr := ((p.find? (·.1 == n)).map (·.2)).getD []

def retVar : Name := "__scfg_return_value__"
def contVar (k : Int) : Name := "__scfg_loop_cont_" ++ toString k ++ "__"

def instrToS : Instr → S
  | .s st => st
  | .e x => .expr x

/-- `lookup(item)`: the innermost enclosing level (from the region stack) that has the name -/
def lookupScoped (H : Hier) : List Name → Name → M Blk
  | [], _ => .error (keyErrorAt "rlookup")
  | c :: rest, n => match H.getIn? c n with
    | some b => .ok b
    | none => lookupScoped H rest n

structure CG where
  counter : Int := 0
  stack : List Name        -- containers, innermost first

mutual
/-- `codegen(block)` -/
def codegenBlk (H : Hier) (pay : Payload) : Nat → CG → Blk → M (List S × CG)
  | 0, _, _ => .error ⟨"OutOfFuel", "codegen"⟩
  | f + 1, cg, b =>
    match b.kind with
    | .ast =>
      let tree := pay.get b.name
      if b.jt.length == 2 then
        match tree.getLast? with
        | none => .error ⟨"IndexError", "codegen"⟩
        | some last => do
          let test : E := match last with
            | .s (.expr t) => t
            | .e t => t
            | .s _ => .cst Cst.none     -- `.value` of a non-expression statement
          let t0 ← lookupScoped H cg.stack (b.jt[0]!)
          let (body, cg) ← codegenBlk H pay f cg t0
          let t1 ← lookupScoped H cg.stack (b.jt[1]!)
          let (orelse, cg) ← codegenBlk H pay f cg t1
          pure ((tree.dropLast.map instrToS) ++ [.ifS test body orelse], cg)
      else if b.jts.length == 1 then
        match tree.getLast? with
        | some (.s (.ret v)) => pure ((tree.dropLast.map instrToS) ++ [.assign retVar v], cg)
        | _ => pure (tree.map instrToS, cg)
      else if b.jt.isEmpty then pure (tree.map instrToS, cg)
      else .error ⟨"NotImplementedError", "codegen"⟩
    | .region =>
      let cg1 : CG := { cg with stack := b.name :: cg.stack }
      if b.rkind == "head" || b.rkind == "tail" || b.rkind == "branch" then do
        let (body, cg2) ← codegenView H pay f cg1 b.name
        pure (body, { cg2 with stack := cg.stack })
      else if b.rkind == "loop" then do
        let cg1 := { cg1 with counter := cg1.counter + 1 }
        let cv := contVar cg1.counter
        let (body, cg2) ← codegenView H pay f cg1 b.name
        pure ([.assign cv (.cst Cst.tt), .whileS (.var cv) body []], { cg2 with stack := cg.stack })
      else .error ⟨"NotImplementedError", "codegen"⟩
    | .synthAssign => pure (b.asg.map fun p => .assign p.1 (.cst (Cst.int p.2)), cg)
    | .synthTail => pure ([], cg)
    | .synthFill => pure ([.pass], cg)
    | .synthReturn => pure ([.ret (.var retVar)], cg)
    | .synthLatch =>
      if b.jt.length != 1 || b.bes.length != 1 then .error (assertionAt "codegen")
      else
        let cv := contVar cg.counter
        pure ([.assign cv (.notE (.var b.var))], { cg with counter := cg.counter - 1 })
    | .synthExitBranch | .synthHead => cascade H pay f cg b b.jt
    | _ => .error ⟨"NotImplementedError", "codegen"⟩
/-- the if-cascade over the jump targets of a branching block, first target first -/
def cascade (H : Hier) (pay : Payload) : Nat → CG → Blk → List Name → M (List S × CG)
  | 0, _, _, _ => .error ⟨"OutOfFuel", "codegen"⟩
  | _ + 1, _, _, [] => .error ⟨"IndexError", "codegen"⟩
  | f + 1, cg, b, [t] => do
    let tb ← lookupScoped H cg.stack t
    codegenBlk H pay f cg tb
  | f + 1, cg, b, t :: rest => do
    let vals := (b.tbl.filter (·.2 == t)).map (·.1)
    let tb ← lookupScoped H cg.stack t
    let (body, cg) ← codegenBlk H pay f cg tb
    let (orelse, cg) ← cascade H pay f cg b rest
    pure ([.ifS (.inT b.var vals) body orelse], cg)
/-- the linear walk over a level that skips branch regions -/
def codegenView (H : Hier) (pay : Payload) : Nat → CG → Name → M (List S × CG)
  | 0, _, _ => .error ⟨"OutOfFuel", "codegen"⟩
  | f + 1, cg, c => do
    let names ← viewIter H c
    names.foldlM (fun (acc : List S × CG) n => do
      let b ← getIn "codegen" H c n
      if b.isRegion && b.rkind == "branch" then pure acc
      else do
        let (ss, cg') ← codegenBlk H pay f acc.2 b
        pure (acc.1 ++ ss, cg')) ([], cg)
end

/-- `SCFG2ASTTransformer().transform(original, scfg)`: the body of the generated function -/
def codegenTop (H : Hier) (top : Name) (pay : Payload) : M (List S) := do
  let (body, _) ← codegenView H pay (4 * H.length + 16) { counter := 0, stack := [top] } top
  pure body

/-- the front end's blocks as a flat level -/
def blocksToHier (top : Name) (bs : List WBlock) : Hier × Payload :=
  (bs.map fun b => { cont := top, name := toString b.name, kind := .ast, jts := b.jts.map toString },
   bs.map fun b => (toString b.name, b.instrs))

/-- source → CFG → restructure → source, all in the model -/
def roundtrip (body : List S) : Except String (List S) :=
  match ast2cfg body with
  | .error e => .error e
  | .ok bs =>
    let top := "meta_region_0"
    let (H, pay) := blocksToHier top bs
    match restructure { H := H, ng := [("meta", 1)] } top with
    | .error a => .error a.toString
    | .ok st => match codegenTop st.H top pay with
      | .error a => .error a.toString
      | .ok out => .ok out

end Scfg.Model
