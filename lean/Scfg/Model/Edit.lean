import Scfg.Basic
/-!
# L3 model: name generator, ordered-dict graph, edit primitives

Hand-written executable model of
`NameGenerator`, `SCFG.add_block` / `graph.pop`, `BasicBlock.replace_jump_targets`,
`SyntheticBranch.replace_jump_targets`, `_rename_in_exiting`, `SCFG.insert_block`,
`SCFG.insert_block_and_control_blocks`, `SCFG.join_returns`, `SCFG.join_tails_and_exits`
(numba_scfg/core/datastructures/{scfg,basic_block}.py). Places where the Python raises are
`Except.error` values naming the exception type and the raising function — never a default.
The correspondence check (harness/props/c14.py) compares this model with the real code
dump-for-dump after every operation of random edit histories.
-/
namespace Scfg.Model
open Scfg

/-- An exception of the implementation: Python exception type and raising function. -/
structure Abort where
  exc : String
  site : String
  deriving DecidableEq, Repr, Inhabited

def Abort.toString (a : Abort) : String := a.exc ++ "@" ++ a.site

abbrev M := Except Abort

def assertionAt (site : String) : Abort := ⟨"AssertionError", site⟩
def keyErrorAt (site : String) : Abort := ⟨"KeyError", site⟩

/-! ## Name generator: one counter table shared by block, region and variable names -/

abbrev NameGen := List (String × Nat)

def NameGen.next (ng : NameGen) (kind : String) : Nat × NameGen :=
  match ng.find? (·.1 == kind) with
  | some (_, i) => (i, ng.map fun p => if p.1 == kind then (kind, i + 1) else p)
  | none => (0, ng ++ [(kind, 1)])

def NameGen.newBlockName (ng : NameGen) (kind : String) : Name × NameGen :=
  let (i, ng') := ng.next kind
  (kind ++ "_block_" ++ toString i, ng')

def NameGen.newRegionName (ng : NameGen) (kind : String) : Name × NameGen :=
  let (i, ng') := ng.next kind
  (kind ++ "_region_" ++ toString i, ng')

def NameGen.newVarName (ng : NameGen) (kind : String) : Name × NameGen :=
  let (i, ng') := ng.next kind
  ("__scfg_" ++ kind ++ "_var_" ++ toString i ++ "__", ng')

/-! ## Ordered-dict operations on one container of the flat hierarchy -/

def hasIn (H : Hier) (c n : Name) : Bool := H.any fun b => b.cont == c && b.name == n

/-- `graph[name] = block`: overwrite keeps the position, a new key goes to the end. -/
def putIn (H : Hier) (b : Blk) : Hier :=
  if hasIn H b.cont b.name then H.map fun x => if x.cont == b.cont && x.name == b.name then b else x
  else H ++ [b]

/-- `graph.pop(name)` -/
def popIn (site : String) (H : Hier) (c n : Name) : M (Blk × Hier) :=
  match H.getIn? c n with
  | none => .error (keyErrorAt site)
  | some b => .ok (b, H.filter fun x => !(x.cont == c && x.name == n))

def getIn (site : String) (H : Hier) (c n : Name) : M Blk :=
  match H.getIn? c n with
  | none => .error (keyErrorAt site)
  | some b => .ok b

/-! ## Re-targeting -/

/-- `dict[k] = v` on an insertion-ordered table. -/
def tblSet (t : List (Int × Name)) (k : Int) (v : Name) : List (Int × Name) :=
  if t.any (·.1 == k) then t.map fun p => if p.1 == k then (k, v) else p else t ++ [(k, v)]

/-- all keys of `old` whose value is `target` get value `v` in `acc` -/
def tblCopy (old : List (Int × Name)) (target v : Name) (acc : List (Int × Name)) :
    List (Int × Name) :=
  old.foldl (fun acc p => if p.2 == target then tblSet acc p.1 v else acc) acc

def dedup : List Name → List Name
  | [] => []
  | x :: xs => x :: (dedup xs).filter (· != x)

/-- `replace_jump_targets`: plain for ordinary blocks; branching blocks also rewrite their value
    table — positionally when the tuple keeps its length, otherwise under the
    single-replacement assumption (`assert len(diff) == 1`). -/
def replaceJts (b : Blk) (new : List Name) : M Blk :=
  if !b.kind.isBranching then .ok { b with jts := new }
  else if new.length == b.jts.length then
    let tbl := (b.jts.zip new).foldl (fun acc p => tblCopy b.tbl p.1 p.2 acc) []
    .ok { b with jts := new, tbl := tbl }
  else
    let diff := dedup (new.filter fun x => !b.jts.contains x)
    let step (acc : List (Int × Name)) (t : Name) : M (List (Int × Name)) :=
      if !new.contains t then
        match diff with
        | [nt] => .ok (tblCopy b.tbl t nt acc)
        | _ => .error (assertionAt "replace_jump_targets")
      else .ok (tblCopy b.tbl t t acc)
    match b.jts.foldlM step [] with
    | .error e => .error e
    | .ok tbl => .ok { b with jts := new, tbl := tbl }

/-- `_rename_in_exiting(block, old, new)`: rename a target inside the (nested) exiting blocks
    of a region; each touched block is popped and re-added (moves to the end of its dict). -/
def renameInExiting (H : Hier) : Nat → Blk → Name → Name → M Hier
  | 0, _, _, _ => .error ⟨"OutOfFuel", "_rename_in_exiting"⟩
  | f + 1, blk, old, new =>
    if !blk.isRegion then .ok H
    else do
      let (inner, H1) ← popIn "_rename_in_exiting" H blk.name blk.exiting
      let inner' ← replaceJts inner (inner.jts.map fun t => if t == old then new else t)
      renameInExiting (putIn H1 inner') f inner' old new

/-- first index of `x` -/
def listSet (xs : List Name) (i : Nat) (v : Name) : List Name := xs.set i v

/-- The inner loop of `insert_block` over the successors, for one predecessor. -/
def rewire (new : Name) : List Name → List Name → List Name
  | jt, [] => jt
  | jt, s :: ss =>
    match idxOf jt s with
    | none => rewire new jt ss
    | some i =>
      if !jt.contains new then rewire new (jt.set i new) ss
      else rewire new (jt.eraseIdx i) ss

/-- `insert_block(new_name, predecessors, successors, block_type)` in container `c`. -/
def insertBlock (H : Hier) (c : Name) (kind : BKind) (new : Name) (preds succs : List Name) :
    M Hier := do
  let H0 := putIn H { cont := c, name := new, kind := kind, jts := succs }
  preds.foldlM (fun H p => do
    let (blk, H1) ← popIn "insert_block" H c p
    -- declared back edges stay in place, they are never rerouted
    let jt := blk.jts
    let succs' := succs.filter fun s => !blk.bes.contains s
    -- renaming inside a region predecessor happens for every successor found, in order
    let rec ren (H : Hier) (jt : List Name) : List Name → M Hier
      | [] => .ok H
      | s :: ss =>
        match idxOf jt s with
        | none => ren H jt ss
        | some i => do
          let H' ← renameInExiting H (H.length + 1) blk s new
          if !jt.contains new then ren H' (jt.set i new) ss else ren H' (jt.eraseIdx i) ss
    let H2 ← if succs.isEmpty then pure H1 else ren H1 jt succs'
    let jt' := if succs.isEmpty then jt ++ [new] else rewire new jt succs'
    let blk' ← replaceJts blk jt'
    pure (putIn H2 blk')) H0

/-- insertion sort on names (Python `sorted` on `str`, code-point order) -/
def insertSorted (x : Name) : List Name → List Name
  | [] => [x]
  | y :: ys => if x ≤ y then x :: y :: ys else y :: insertSorted x ys

def sortNames (xs : List Name) : List Name := xs.foldr insertSorted []

structure St where
  H : Hier
  ng : NameGen
  deriving Repr, Inhabited

/-- `insert_block_and_control_blocks(new_name, predecessors, successors)` in container `c`. -/
def insertCtl (st : St) (c : Name) (new : Name) (preds succs : List Name) : M St := do
  let (var, ng0) := st.ng.newVarName "control"
  -- state threaded through the loops: hierarchy, name generator, next value, table
  let (H, ng, _, tbl) ← preds.foldlM (fun (acc : Hier × NameGen × Int × List (Int × Name)) p => do
    let (H, ng, v, tbl) := acc
    let blk ← getIn "insert_block_and_control_blocks" H c p
    let jt := blk.jts
    let hits := sortNames (dedup (blk.jt.filter fun t => succs.contains t))
    let (H, ng, v, tbl, jt) ← hits.foldlM
      (fun (a : Hier × NameGen × Int × List (Int × Name) × List Name) s => do
        let (H, ng, v, tbl, jt) := a
        let (an, ng') := ng.newBlockName "synth_asign"
        let H1 := putIn H { cont := c, name := an, kind := .synthAssign, jts := [new], asg := [(var, v)] }
        let jt' := match idxOf jt s with
          | some i => jt.set i an
          | none => jt
        let H2 ← renameInExiting H1 (H1.length + 1) blk s an
        pure (H2, ng', v + 1, tblSet tbl v s, jt')) (H, ng, v, tbl, jt)
    let (cur, H1) ← popIn "insert_block_and_control_blocks" H c p
    let cur' ← replaceJts cur jt
    pure (putIn H1 cur', ng, v, tbl)) (st.H, ng0, (0 : Int), [])
  let head : Blk := { cont := c, name := new, kind := .synthHead, jts := succs, var := var, tbl := tbl }
  pure { H := putIn H head, ng := ng }

/-- `join_returns()` on container `c`. -/
def joinReturns (st : St) (c : Name) : M St := do
  let rets := (st.H.level c).filter fun b => b.jt.isEmpty
  if rets.length > 1 then
    let (n, ng) := st.ng.newBlockName "synth_return"
    let H ← insertBlock st.H c .synthReturn n (rets.map (·.name)) []
    pure { H := H, ng := ng }
  else pure st

/-- `join_tails_and_exits(tails, exits)` on container `c`; returns the state and the pair. -/
def joinTailsExits (st : St) (c : Name) (tails exits : List Name) : M (St × Name × Name) :=
  match tails, exits with
  | [t], [e] => pure (st, t, e)
  | [t], [_, _] => do
    let (x, ng) := st.ng.newBlockName "synth_exit"
    let H ← insertBlock st.H c .synthExit x tails exits
    pure ({ H := H, ng := ng }, t, x)
  | _, _ =>
    if tails.length ≥ 2 && exits.length == 1 then do
      let (t, ng) := st.ng.newBlockName "synth_tail"
      let H ← insertBlock st.H c .synthTail t tails exits
      pure ({ H := H, ng := ng }, t, exits.headD "")
    else if tails.length ≥ 2 && exits.length ≥ 2 then do
      let (t, ng1) := st.ng.newBlockName "synth_tail"
      let (x, ng2) := ng1.newBlockName "synth_exit"
      let H1 ← insertBlock st.H c .synthTail t tails exits
      let H2 ← insertBlock H1 c .synthExit x [t] exits
      pure ({ H := H2, ng := ng2 }, t, x)
    else .error (assertionAt "join_tails_and_exits")

end Scfg.Model
