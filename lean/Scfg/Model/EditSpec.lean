import Scfg.Model.Edit
/-!
# Specification of the edit primitives (C14), as decidable predicates on (before, after)

Arcs are `_jump_targets` entries (declared back edges are arcs too). The predicates are run on
the real objects before and after each real call, and `Scfg/Props/C14.lean` proves them of the
model for all graphs.
-/
namespace Scfg.Model
open Scfg

def notIn (xs : List Name) (x : Name) : Bool := !xs.contains x

/-- What `insert_block(new, P, S)` must do to the successor tuple of a predecessor. -/
def predArcsOK (new : Name) (succs old now : List Name) : Bool :=
  if succs.isEmpty then now == old ++ [new]
  else
    let keep := fun t => notIn succs t && t != new
    -- the remaining successors are unchanged, in the same order
    now.filter keep == old.filter keep &&
    -- every former arc into S now runs through the new block
    now.all (notIn succs) &&
    (if old.any succs.contains then now.count new == 1 else now == old)

/-- Entries of other levels (the inside of regions): unchanged, except that a successor that was
    one of `succs` may have been renamed (position-wise) to a block that did not exist before —
    the renaming inside a region predecessor's exiting blocks. No arc, no back edge is lost. -/
def otherLevelsOK (before after : Hier) (c : Name) (succs : List Name) : Bool :=
  (before.filter (·.cont != c)).all fun b =>
    match after.filter (fun a => a.cont == b.cont && a.name == b.name) with
    | [a] =>
      a.bes == b.bes && a.kind == b.kind && a.pay == b.pay && a.asg == b.asg && a.var == b.var &&
      a.header == b.header && a.exiting == b.exiting &&
      Scfg.zipAllB (fun o n => o == n || (succs.contains o && !b.bes.contains o &&
        !(before.any (·.name == n)))) b.jts a.jts
    | _ => false

/-- `insert_block` on level `c`: the new block has exactly the successors `S`; every former arc
    from `P` into `S` runs through it; no other arc, no other block of the level changes, and a
    predecessor keeps everything but its successor tuple (and, for branching blocks, its
    re-keyed table). -/
def insertSpecOK (before after : Hier) (c new : Name) (preds succs : List Name) : Bool :=
  let lb := before.level c
  let la := after.level c
  (match la.filter (·.name == new) with
   | [nb] => nb.jts == succs && nb.bes.isEmpty
   | _ => false) &&
  (lb.all fun b =>
    match la.filter (·.name == b.name) with
    | [a] =>
      if preds.contains b.name then
        -- declared back edges are arcs of their own: untouched, still among the targets
        predArcsOK new succs b.jt a.jt && a.bes == b.bes &&
        a.jts.filter a.bes.contains == b.jts.filter b.bes.contains && a.kind == b.kind &&
        a.pay == b.pay && a.asg == b.asg && a.var == b.var
      else a == b
    | _ => false) &&
  (la.all fun a => a.name == new || lb.any (·.name == a.name)) &&
  otherLevelsOK before after c succs

/-- One rerouted arc of `insert_block_and_control_blocks`: predecessor → fresh assignment block
    (assigning the head's variable a value the table maps back to the old target) → head. -/
def ctlArcOK (after : Hier) (c new : Name) (head : Blk) (oldT nowT : Name) : Bool :=
  match (after.level c).filter (·.name == nowT) with
  | [a] =>
    a.kind == .synthAssign && a.jts == [new] && a.bes.isEmpty &&
    (match a.asg with
     | [(v, k)] => v == head.var && (head.tbl.find? (·.1 == k)).map (·.2) == some oldT
     | _ => false)
  | _ => false

def insertCtlSpecOK (before after : Hier) (c new : Name) (preds succs : List Name) : Bool :=
  let lb := before.level c
  let la := after.level c
  match la.filter (·.name == new) with
  | [head] =>
    head.kind == .synthHead && head.jts == succs && head.bes.isEmpty &&
    -- the table is a bijection between the values handed out and the rerouted arcs' targets
    head.tbl.all (fun p => succs.contains p.2) &&
    (lb.all fun b =>
      match la.filter (·.name == b.name) with
      | [a] =>
        if preds.contains b.name then
          a.jts.length == b.jts.length && a.bes == b.bes && a.kind == b.kind &&
          Scfg.zipAllB (fun o n =>
              if succs.contains o && !b.bes.contains o then ctlArcOK after c new head o n else o == n)
            b.jts a.jts
        else a == b
      | _ => false) &&
    -- everything added is the head or an assignment block feeding it
    (la.all fun a => a.name == new || lb.any (·.name == a.name) ||
      (a.kind == .synthAssign && a.jts == [new])) &&
    otherLevelsOK before after c succs
  | _ => false

/-- `join_returns`: afterwards exactly one exit, reached from every former exit; identity when
    there was at most one. -/
def joinReturnsSpecOK (before after : Hier) (c : Name) : Bool :=
  let lb := before.level c
  let la := after.level c
  let exitsB := lb.filter (·.jt.isEmpty)
  if exitsB.length ≤ 1 then la == lb
  else
    match la.filter (·.jt.isEmpty) with
    | [x] => x.kind == .synthReturn && !(lb.any (·.name == x.name)) &&
      exitsB.all (fun e => match la.filter (·.name == e.name) with
        | [a] => a.jts == e.jts ++ [x.name]
        | _ => false) &&
      (lb.all fun b => b.jt.isEmpty || la.contains b)
    | _ => false

end Scfg.Model
