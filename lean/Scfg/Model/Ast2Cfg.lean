import Scfg.Py.Syntax
/-!
# L3 model: the source front end (`AST2SCFGTransformer`) on the abstract syntax

`handle_ast_node`, `handle_expression`, `handle_bool_op`, `handle_if`, `handle_while`,
`handle_for`, the sealing rules, and the three pruning passes of `ASTCFG`, producing the list
of blocks (dict order) with their instruction lists and jump targets. Compared block-for-block
with the abstraction of the real `transform_to_ASTCFG()` result (harness/props/c08.py).
-/
namespace Scfg.Model
open Scfg Scfg.Py

/-- An instruction of a front-end block: a statement, or a bare test expression. -/
inductive Instr
  | s (st : S)
  | e (ex : E)
  deriving Repr, Inhabited

structure WBlock where
  name : Nat
  instrs : List Instr := []
  jts : List Nat := []
  deriving Repr, Inhabited

structure FE where
  blocks : List WBlock := [{ name := 0 }]
  cur : Nat := 0
  blockIndex : Nat := 1
  boolIdx : Nat := 0
  loopStack : List (Nat × Nat) := []
  deriving Repr, Inhabited

def FE.updCur (fe : FE) (f : WBlock → WBlock) : FE :=
  { fe with blocks := fe.blocks.map fun b => if b.name == fe.cur then f b else b }

def FE.emit (fe : FE) (i : Instr) : FE := fe.updCur fun b => { b with instrs := b.instrs ++ [i] }
def FE.setJts (fe : FE) (js : List Nat) : FE := fe.updCur fun b => { b with jts := js }
def FE.addBlock (fe : FE) (idx : Nat) : FE :=
  let blocks := if fe.blocks.any (·.name == idx)
    then fe.blocks.map fun b => if b.name == idx then { name := idx } else b
    else fe.blocks ++ [{ name := idx }]
  { fe with blocks := blocks, cur := idx }

def FE.curBlock (fe : FE) : WBlock := (fe.blocks.find? (·.name == fe.cur)).getD default

/-- last instruction of the current block is a return / break / continue statement -/
def lastIs (b : WBlock) (p : S → Bool) : Bool :=
  match b.instrs.getLast? with
  | some (.s st) => p st
  | _ => false

def isRet : S → Bool | .ret _ => true | _ => false
def isBrk : S → Bool | .brk => true | _ => false
def isCont : S → Bool | .cont => true | _ => false

/-- `seal_block(default_index)` -/
def FE.seal (fe : FE) (dflt : Nat) : FE :=
  let b := fe.curBlock
  match fe.loopStack.getLast? with
  | some (head, exit) =>
    if lastIs b isCont then fe.setJts [head]
    else if lastIs b isBrk then fe.setJts [exit]
    else if lastIs b isRet then fe
    else fe.setJts [dflt]
  | none => if lastIs b isRet then fe else fe.setJts [dflt]

def boolVar (k : Nat) : Name := "__scfg_bool_op_" ++ toString k ++ "__"

/-- `handle_expression` / `handle_bool_op`: returns the residual expression. -/
def handleExpr : Nat → E → FE → E × FE
  | 0, e, fe => (e, fe)
  | f + 1, e, fe =>
    let handleBoolOp (isAnd : Bool) (a b : E) (fe : FE) : E × FE :=
      let fe := { fe with boolIdx := fe.boolIdx + 1 }
      let rv := boolVar fe.boolIdx
      let (left, fe) := handleExpr f a fe
      let fe := fe.emit (.s (.assign rv left))
      let other := fe.blockIndex
      let merge := fe.blockIndex + 1
      let fe := { fe with blockIndex := fe.blockIndex + 2 }
      let fe := fe.emit (.e (.var rv))
      let fe := if isAnd then fe.setJts [other, merge] else fe.setJts [merge, other]
      let fe := fe.addBlock other
      let (right, fe) := handleExpr f b fe
      let fe := fe.emit (.s (.assign rv right))
      let fe := fe.setJts [merge]
      let fe := fe.addBlock merge
      (.var rv, fe)
    let handleList (es : List E) (fe : FE) : List E × FE :=
      es.foldl (fun (acc : List E × FE) x =>
        let (x', fe') := handleExpr f x acc.2
        (acc.1 ++ [x'], fe')) ([], fe)
    match e with
    | .boolop isAnd [a, b] =>
      let (a', fe) := handleExpr f a fe
      let (b', fe) := handleExpr f b fe
      handleBoolOp isAnd a' b' fe
    | .boolop isAnd (a :: b :: c :: rest) => handleBoolOp isAnd a (.boolop isAnd (b :: c :: rest)) fe
    | .compare id l rest =>
      let (l', fe) := handleExpr f l fe
      let (rest', fe) := handleList rest fe
      (.compare id l' rest', fe)
    | .binop id l r =>
      let (l', fe) := handleExpr f l fe
      let (r', fe) := handleExpr f r fe
      (.binop id l' r', fe)
    | .call id fn args =>
      let (args', fe) := handleList args fe
      (.call id fn args', fe)
    | .iterOf id x =>
      let (x', fe) := handleExpr f x fe
      (.iterOf id x', fe)
    | e => (e, fe)

def exprFuel : Nat := 64

def iterVar (k : Nat) : Name := "__scfg_iterator_" ++ toString k ++ "__"
def lastVar (k : Nat) : Name := "__scfg_iter_last_" ++ toString k ++ "__"

def feAssign (x : Name) (e : E) (fe : FE) : FE :=
  let (e', fe) := handleExpr exprFuel e fe
  fe.emit (.s (.assign x e'))

def feExprStmt (e : E) (fe : FE) : FE :=
  let (e', fe) := handleExpr exprFuel e fe
  fe.emit (.s (.expr e'))

mutual
/-- `handle_ast_node` -/
def feStmt : S → FE → Except String FE
  | .assign x e, fe =>
    let (e', fe) := handleExpr exprFuel e fe
    .ok (fe.emit (.s (.assign x e')))
  | .store id reads e, fe =>
    let (e', fe) := handleExpr exprFuel e fe
    .ok (fe.emit (.s (.store id reads e')))
  | .expr e, fe =>
    let (e', fe) := handleExpr exprFuel e fe
    .ok (fe.emit (.s (.expr e')))
  | .ret e, fe =>
    let (e', fe) := handleExpr exprFuel e fe
    .ok (fe.emit (.s (.ret e')))
  | .pass, fe => .ok (fe.emit (.s .pass))
  | .brk, fe => .ok (fe.emit (.s .brk))
  | .cont, fe => .ok (fe.emit (.s .cont))
  | .ifS test body orelse, fe => do
    let thenI := fe.blockIndex
    let elseI := fe.blockIndex + 1
    let endI := fe.blockIndex + 2
    let fe := { fe with blockIndex := fe.blockIndex + 3 }
    let (t, fe) := handleExpr exprFuel test fe
    let fe := (fe.emit (.e t)).setJts [thenI, elseI]
    let fe := fe.addBlock thenI
    let fe ← feList body fe
    let fe := fe.seal endI
    let fe := fe.addBlock elseI
    let fe ← feList orelse fe
    let fe := fe.seal endI
    pure (fe.addBlock endI)
  | .whileS test body orelse, fe => do
    let headI := fe.blockIndex
    let bodyI := fe.blockIndex + 1
    let exitI := fe.blockIndex + 2
    let elseI := fe.blockIndex + 3
    let fe := { fe with blockIndex := fe.blockIndex + 4 }
    let fe := (fe.setJts [headI]).addBlock headI
    let (t, fe) := handleExpr exprFuel test fe
    let fe := (fe.emit (.e t)).setJts [bodyI, elseI]
    let fe := fe.addBlock bodyI
    let fe := { fe with loopStack := fe.loopStack ++ [(headI, exitI)] }
    let fe ← feList body fe
    let fe := fe.seal headI
    let fe := { fe with loopStack := fe.loopStack.dropLast }
    let fe := fe.addBlock elseI
    let fe ← feList orelse fe
    let fe := fe.seal exitI
    pure (fe.addBlock exitI)
  | .forS id x e body orelse, fe => do
    let headI := fe.blockIndex
    let bodyI := fe.blockIndex + 1
    let elseI := fe.blockIndex + 2
    let exitI := fe.blockIndex + 3
    let fe := { fe with blockIndex := fe.blockIndex + 4 }
    let it := iterVar headI
    let last := lastVar headI
    -- pre-header: `it = iter(e)`, `x = None`
    let fe := feAssign it (.iterOf id e) fe
    let fe := feAssign x (.cst Cst.none) fe
    let fe := (fe.setJts [headI]).addBlock headI
    -- header: `last = x`, `x = next(it, sentinel)`, `x != sentinel`
    let fe := feAssign last (.var x) fe
    let fe := feAssign x (.nextOf id it) fe
    let fe := feExprStmt (.neSent x) fe
    let fe := fe.setJts [bodyI, elseI]
    let fe := fe.addBlock bodyI
    let fe := { fe with loopStack := fe.loopStack ++ [(headI, exitI)] }
    let fe ← feList body fe
    let fe := fe.seal headI
    let fe := { fe with loopStack := fe.loopStack.dropLast }
    let fe := fe.addBlock elseI
    let fe := feAssign x (.var last) fe
    let fe ← feList orelse fe
    let fe := fe.seal exitI
    pure (fe.addBlock exitI)
  | .unsupported w, _ => .error ("NotImplementedError:" ++ w)
/-- `codegen(tree)`: stops after the first return / break / continue of the list -/
def feList : List S → FE → Except String FE
  | [], fe => .ok fe
  | s :: ss, fe => do
    let fe ← feStmt s fe
    if isRet s || isBrk s || isCont s then pure fe else feList ss fe
end

/-- `prune_unreachable` (entry "0") -/
def pruneUnreachable (bs : List WBlock) : List WBlock :=
  let succ (n : Nat) : List Nat := ((bs.find? (·.name == n)).map (·.jts)).getD []
  let rec go : Nat → List Nat → List Nat → List Nat
    | 0, _, seen => seen
    | _ + 1, [], seen => seen
    | f + 1, n :: rest, seen => if seen.contains n then go f rest seen else go f (succ n ++ rest) (n :: seen)
  let reach := go (bs.length * 3 + 4) [0] []
  bs.filter fun b => reach.contains b.name

def isNoop : Instr → Bool
  | .s .pass | .s .brk | .s .cont => true
  | _ => false

/-- `prune_noops` -/
def pruneNoops (bs : List WBlock) : List WBlock :=
  bs.map fun b => { b with instrs := b.instrs.filter fun i => !isNoop i }

/-- `prune_empty`: an empty block is removed and its (single) target takes its place in every
    predecessor; aborts like the code when an empty block has no target. Two guards keep a block:
    the entry block stays when its target has another predecessor (the entry must not gain one), and
    a block stays when removing it would make the two targets of a branching block coincide. -/
def pruneEmpty (bs : List WBlock) : Except String (List WBlock) :=
  let entry : Nat := (bs.head?.map (·.name)).getD 0
  (bs.map (·.name)).foldlM (fun (cur : List WBlock) name =>
    match cur.find? (·.name == name) with
    | none => .ok cur
    | some b =>
      if !b.instrs.isEmpty then .ok cur
      else match b.jts with
        | [] => .error "IndexError:prune_empty"
        | it :: _ =>
          if name == entry && cur.any (fun x => x.name != name && x.jts.contains it) then .ok cur
          else if cur.any (fun x => match x.jts with
              | [t, u] => t != u && ((t == name && u == it) || (t == it && u == name))
              | _ => false) then .ok cur
          else
          let rest := cur.filter (·.name != name)
          .ok (rest.map fun x =>
            match x.jts with
            | [t] => if t == name then { x with jts := [it] } else x
            | [t, u] => { x with jts := [if t == name then it else t, if u == name then it else u] }
            | _ => x)) bs

/-- The block list handed to `prune_empty` (after `prune_unreachable` and `prune_noops`). -/
def ast2cfgPre (body : List S) : Except String (List WBlock) := do
  let body := match body.getLast? with
    | some (.ret _) => body
    | _ => body ++ [.ret (.cst Cst.none)]
  let fe ← feList body {}
  pure (pruneNoops (pruneUnreachable fe.blocks))

/-- `AST2SCFGTransformer(code).transform_to_ASTCFG()` for a function body. -/
def ast2cfg (body : List S) : Except String (List WBlock) := do
  pruneEmpty (← ast2cfgPre body)

/-! Decidable hypotheses of the pruning theorems (`Scfg/Props/C08.lean`), evaluated by the driver
on the pre-pruning block list of every generated program. -/

/-- Untrusted rank: length of the chain of empty blocks starting at `n`. -/
def chainLen (bs : List WBlock) : Nat → Nat → Nat
  | 0, _ => 0
  | f + 1, n => match bs.find? (·.name == n) with
    | none => 0
    | some b => if !b.instrs.isEmpty then 0 else match b.jts with
      | [] => 1
      | it :: _ => 1 + chainLen bs f it

def rankOf (bs : List WBlock) (n : Nat) : Nat := chainLen bs (bs.length + 1) n

def distinctTargetsB (bs : List WBlock) : Bool :=
  bs.all fun x => match x.jts with
    | [t, u] => t != u
    | _ => true

def closedBB (bs : List WBlock) : Bool := bs.all fun x => x.jts.all fun t => bs.any (·.name == t)

def arity2B (bs : List WBlock) : Bool := bs.all fun x => x.jts.length ≤ 2

def emptyRankedB (r : Nat → Nat) (bs : List WBlock) : Bool :=
  bs.all fun x => !x.instrs.isEmpty || match x.jts with
    | [] => true
    | it :: _ => !(bs.any fun y => y.name == it && y.instrs.isEmpty) || r it < r x.name

def emptiesHaveTargetB (bs : List WBlock) : Bool := bs.all fun x => !x.instrs.isEmpty || !x.jts.isEmpty

def pruneHypOK (bs : List WBlock) : Bool :=
  distinctTargetsB bs && closedBB bs && arity2B bs && emptyRankedB (rankOf bs) bs && emptiesHaveTargetB bs

end Scfg.Model
