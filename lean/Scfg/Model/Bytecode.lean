import Scfg.Model.Edit
/-!
# L3 model: `FlowInfo.from_bytecode` and `FlowInfo.build_basicblocks`

The three opcode-name tables are *parameters*: the harness regenerates them from
`numba_scfg/core/utils.py` on every run and passes them on the wire (`BC` request).
-/
namespace Scfg.Model
open Scfg

structure OpTables where
  cond : List String
  uncond : List String
  term : List String
  deriving Repr, Inhabited

/-- One `dis.Instruction`, reduced to what the front end reads. -/
structure Ins where
  off : Nat
  op : String
  /-- `argval` (the jump target offset for jump opcodes) -/
  arg : Nat
  isTarget : Bool
  deriving Repr, Inhabited, DecidableEq

structure FlowInfo where
  /-- `block_offsets` (a set) -/
  blockOffsets : List Nat := []
  /-- `jump_insts`: offset ↦ target offsets -/
  jumpInsts : List (Nat × List Nat) := []
  lastOffset : Nat := 0
  deriving Repr, Inhabited

def addOff (s : List Nat) (o : Nat) : List Nat := if s.contains o then s else s ++ [o]

def jumpSet (j : List (Nat × List Nat)) (k : Nat) (v : List Nat) : List (Nat × List Nat) :=
  if j.any (·.1 == k) then j.map fun p => if p.1 == k then (k, v) else p else j ++ [(k, v)]

/-- `FlowInfo.from_bytecode(bc)` -/
def fromBytecode (T : OpTables) (is : List Ins) : FlowInfo :=
  let fi := is.foldl (fun (fi : FlowInfo) inst =>
    let fi := if inst.off == 0 || inst.isTarget then { fi with blockOffsets := addOff fi.blockOffsets inst.off } else fi
    let add (fi : FlowInfo) (targets : List Nat) : FlowInfo :=
      { fi with blockOffsets := targets.foldl addOff fi.blockOffsets,
                jumpInsts := jumpSet fi.jumpInsts inst.off targets }
    let fi :=
      if T.cond.contains inst.op then add fi [inst.off + 2, inst.arg]
      else if T.uncond.contains inst.op then add fi [inst.arg]
      else if T.term.contains inst.op then add fi []
      else fi
    { fi with lastOffset := inst.off }) {}
  fi

def insertNat (x : Nat) : List Nat → List Nat
  | [] => [x]
  | y :: ys => if x ≤ y then x :: y :: ys else y :: insertNat x ys
def sortNat (xs : List Nat) : List Nat := xs.foldr insertNat []

/-- The `[begin, end)` ranges `build_basicblocks` cuts the stream into: consecutive sorted block
    offsets, the last range ending right after the last instruction offset. -/
def blockRanges (fi : FlowInfo) : List (Nat × Nat) :=
  let offsets := sortNat fi.blockOffsets
  offsets.zip (offsets.drop 1 ++ [fi.lastOffset + 2])

/-- `build_basicblocks()`: one block per range, in offset order. -/
def buildBlocks (fi : FlowInfo) : M (List Blk) := do
  let offsets := sortNat fi.blockOffsets
  let names : List (Nat × Name) := (List.range offsets.length).zip offsets |>.map
    fun p => (p.2, "python_bytecode_block_" ++ toString p.1)
  let nameOf (o : Nat) : M Name := match names.find? (·.1 == o) with
    | some p => pure p.2
    | none => throw (keyErrorAt "build_basicblocks")
  (blockRanges fi).mapM fun (be : Nat × Nat) => do
    let name ← nameOf be.1
    let term := be.2 - 2
    let targets ← match fi.jumpInsts.find? (·.1 == term) with
      | none => do let n ← nameOf be.2; pure [n]
      | some p => p.2.mapM nameOf
    pure ({ cont := "meta_region_0", name := name, kind := .bytecode, jts := targets,
            pay := [Int.ofNat be.1, Int.ofNat be.2] } : Blk)

/-! ## Specification side: the control flow the interpreter's own metadata prescribes -/

inductive Cls | cond | uncond | ret | other
  deriving DecidableEq, Repr, Inhabited

/-- One instruction with its *true* class and size (inline caches included). -/
structure TIns where
  off : Nat
  size : Nat
  cls : Cls
  target : Nat
  deriving Repr, Inhabited, DecidableEq

/-- leaders: offset 0, every jump target, and the instruction after a jump or return -/
def leaders (is : List TIns) : List Nat :=
  sortNat (is.foldl (fun acc i =>
    let acc := match i.cls with
      | .cond | .uncond => addOff acc i.target
      | _ => acc
    match i.cls with
    | .other => acc
    | _ => if is.any (·.off == i.off + i.size) then addOff acc (i.off + i.size) else acc) [0])

/-- true successors of the instruction stream cut at its leaders: for every leader the
    (fall-through first) successor offsets of the last instruction of its block -/
def specBlocks (is : List TIns) : List (Nat × List Nat × List Nat) :=
  let ls := leaders is
  ls.map fun l =>
    let nxt := (ls.filter (· > l)).head?
    let members := is.filter fun i => l ≤ i.off && (match nxt with | some n => i.off < n | none => true)
    let succs := match members.getLast? with
      | none => []
      | some last =>
        let ft := last.off + last.size
        let ftl := if is.any (·.off == ft) then [ft] else []
        match last.cls with
        | .cond => ftl ++ [last.target]
        | .uncond => [last.target]
        | .ret => []
        | .other => ftl
    (l, members.map (·.off), succs)


/-- `PythonBytecodeBlock.get_instructions(bcmap)`: walk from `begin` in steps of one code unit
    (`_next_inst_offset`: +2) while below `end`, keep the offsets the map knows (inline-cache
    entries and, under 3.11, gaps are not in the map). `offs` are the keys of `bcmap`. -/
def getInstrs (offs : List Nat) : Nat → Nat → Nat → List Nat
  | 0, _, _ => []
  | f + 1, it, e =>
    if it < e then
      (if offs.contains it then [it] else []) ++ getInstrs offs f (it + 2) e
    else []

def getInstructions (offs : List Nat) (b e : Nat) : List Nat := getInstrs offs (e - b + 1) b e

end Scfg.Model
