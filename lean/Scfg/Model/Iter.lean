import Scfg.Model.Queries
/-!
# L3 model: `SCFG.__iter__` and `ConcealedRegionView.region_view_iterator`
-/
namespace Scfg.Model
open Scfg

/-- `SCFG.__iter__` on container `c`: names in the order they are yielded (the whole
    hierarchy below `c`, depth first inside the breadth-first level walk). -/
def iterAll (H : Hier) : Nat → Name → M (List Name)
  | 0, _ => .error ⟨"OutOfFuel", "__iter__"⟩
  | f + 1, c => do
    let h ← findHead H c
    let rec go : Nat → List Name → List Name → List Name → M (List Name)
      | 0, _, _, _ => .error ⟨"OutOfFuel", "__iter__"⟩
      | _ + 1, [], _, out => .ok out
      | g + 1, name :: rest, seen, out =>
        if mem seen name then go g rest seen out
        else match H.getIn? c name with
          | none => go g rest (name :: seen) out
          | some b => do
            let inner ← if b.isRegion then iterAll H f b.name else pure []
            go g (rest ++ b.jt) (name :: seen) (out ++ [name] ++ inner)
    let lvl := H.level c
    go (lvl.length + (lvl.foldl (fun n x => n + x.jts.length) 0) + 4) [h] [] []

/-- what the view follows from an item: a region continues at its exiting block's targets -/
def viewTargets (H : Hier) (b : Blk) : M (List Name) :=
  if b.isRegion then
    match H.getIn? b.name b.exiting with
    | none => .error (keyErrorAt "region_view_iterator")
    | some e => .ok e.jt
  else .ok b.jt

/-- the FIFO loop of `region_view_iterator` -/
def viewGo (H : Hier) (c : Name) : Nat → List Name → List Name → List Name → M (List Name)
  | 0, _, _, _ => .error ⟨"OutOfFuel", "region_view_iterator"⟩
  | _ + 1, [], _, out => .ok out
  | g + 1, name :: rest, seen, out =>
    if mem seen name then viewGo H c g rest seen out
    else match H.getIn? c name with
      | none => viewGo H c g rest (name :: seen) out
      | some b =>
        match viewTargets H b with
        | .error e => .error e
        | .ok ts => viewGo H c g (rest ++ ts) (name :: seen) (out ++ [name])

/-- `region_view_iterator()` on container `c`. -/
def viewIter (H : Hier) (c : Name) : M (List Name) := do
  let h ← findHead H c
  let lvl := H.level c
  viewGo H c (lvl.length + (H.foldl (fun n x => n + x.jts.length) 0) + 4) [h] [] []

end Scfg.Model
