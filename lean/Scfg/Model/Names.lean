import Scfg.Model.Edit
/-!
# Name requests and the prefix-table check (definitions used by the driver and by C18)
-/
namespace Scfg.Model
open Scfg

inductive Ns | block | region | var
  deriving DecidableEq, Repr

abbrev Req := Ns × String

def request (ng : NameGen) (r : Req) : Name × NameGen :=
  match r.1 with
  | .block => ng.newBlockName r.2
  | .region => ng.newRegionName r.2
  | .var => ng.newVarName r.2

def runNames : NameGen → List Req → List Name
  | _, [] => []
  | ng, r :: rs => (request ng r).1 :: runNames (request ng r).2 rs

def pre : Ns → String → List Char
  | .block, k => k.toList ++ "_block_".toList
  | .region, k => k.toList ++ "_region_".toList
  | .var, k => "__scfg_".toList ++ k.toList ++ "_var_".toList

def suf : Ns → List Char
  | .var => "__".toList
  | _ => []

/-- `p` does not continue `q` with a digit, and vice versa. -/
def sepOK (p q : List Char) : Bool :=
  (!(p.isPrefixOf q) || match q.drop p.length with
    | c :: _ => !c.isDigit
    | [] => false) &&
  (!(q.isPrefixOf p) || match p.drop q.length with
    | c :: _ => !c.isDigit
    | [] => false)

/-- Decidable condition on the requests in use: distinct requests have prefixes that cannot be
    confused by appending digits. -/
def prefixesOK (T : List Req) : Bool :=
  T.all fun a => T.all fun b => a == b || sepOK (pre a.1 a.2) (pre b.1 b.2)


end Scfg.Model
