import Scfg.Model.Names
/-!
# L3 model: `NameGenerator.reserve` and the reservation scan of `SCFG.__post_init__`

`reserve(name)`: if the name has the shape of a generated block / region name
(`^(.+)_(?:block|region)_([0-9]+)$`) or variable name (`^__scfg_(.+)_var_([0-9]+)__$`), the counter
of its kind is advanced past its index. The regular expressions are modelled by parsing the
reversed character list: the trailing digits, then the separator, then a non-empty kind (the greedy
`.+` together with the `$` anchor makes the last separator the one that counts).
-/
namespace Scfg.Model
open Scfg

/-- strip a literal prefix -/
def stripPrefix : List Char → List Char → Option (List Char)
  | [], cs => some cs
  | _ :: _, [] => none
  | p :: ps, c :: cs => if p == c then stripPrefix ps cs else none

/-- `([0-9]+)` at the front of the reversed name: (digits in reading order, rest of the reversed name) -/
def takeDigitsRev (rev : List Char) : Option (List Char × List Char) :=
  let ds := rev.takeWhile Char.isDigit
  if ds.isEmpty then none else some (ds.reverse, rev.drop ds.length)

/-- `_block_`, `_region_`, `_var_` reversed; `__`; `__scfg_` -/
def blockSepRev : List Char := ['_', 'k', 'c', 'o', 'l', 'b', '_']
def regionSepRev : List Char := ['_', 'n', 'o', 'i', 'g', 'e', 'r', '_']
def varSepRev : List Char := ['_', 'r', 'a', 'v', '_']
def dunder : List Char := ['_', '_']
def scfgPrefix : List Char := ['_', '_', 's', 'c', 'f', 'g', '_']

/-- `_GENERATED_BLOCK_NAME`: kind and index -/
def parseBlockName (name : List Char) : Option (List Char × Nat) :=
  match takeDigitsRev name.reverse with
  | none => none
  | some (ds, rest) =>
    match stripPrefix blockSepRev rest with
    | some k => if k.isEmpty then none else some (k.reverse, Nat.ofDigitChars 10 ds 0)
    | none =>
      match stripPrefix regionSepRev rest with
      | some k => if k.isEmpty then none else some (k.reverse, Nat.ofDigitChars 10 ds 0)
      | none => none

/-- `_GENERATED_VAR_NAME`: kind and index -/
def parseVarName (name : List Char) : Option (List Char × Nat) :=
  match stripPrefix dunder name.reverse with
  | none => none
  | some r1 =>
    match takeDigitsRev r1 with
    | none => none
    | some (ds, rest) =>
      match stripPrefix varSepRev rest with
      | none => none
      | some r2 =>
        match stripPrefix scfgPrefix r2.reverse with
        | some k => if k.isEmpty then none else some (k, Nat.ofDigitChars 10 ds 0)
        | none => none

/-- `kinds[kind] = idx + 1` (insertion-ordered dict) -/
def NameGen.setCtr (ng : NameGen) (kind : String) (v : Nat) : NameGen :=
  if ng.any (·.1 == kind) then ng.map fun p => if p.1 == kind then (kind, v) else p
  else ng ++ [(kind, v)]

def NameGen.ctrOf (ng : NameGen) (kind : String) : Nat :=
  match ng.find? (·.1 == kind) with
  | some p => p.2
  | none => 0

/-- `NameGenerator.reserve(name)` -/
def NameGen.reserve (ng : NameGen) (name : Name) : NameGen :=
  match (parseVarName name.toList).orElse fun _ => parseBlockName name.toList with
  | none => ng
  | some (k, idx) =>
    let kind := String.ofList k
    if ng.ctrOf kind ≤ idx then ng.setCtr kind (idx + 1) else ng

/-- the reservation scan of `SCFG.__post_init__` over one level: every block's name, the variable of
    a branching block, the variables of an assignment block -/
def reserveLevel (ng : NameGen) (lvl : List Blk) : NameGen :=
  lvl.foldl (fun ng b =>
    let ng := ng.reserve b.name
    if b.kind.isBranching then ng.reserve b.var
    else if b.kind == .synthAssign then b.asg.foldl (fun ng p => ng.reserve p.1) ng
    else ng) ng

end Scfg.Model
