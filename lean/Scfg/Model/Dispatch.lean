import Scfg.Basic
/-!
# L3 model: the statement dispatcher of `AST2SCFGTransformer` over regenerated data

`DispatchData` is *data* produced by the translator on every run from
`handle_ast_node`'s `isinstance` chain and from the running interpreter's `ast` class
hierarchy. The functions and theorems here hold for any such data.
-/
namespace Scfg.Model

/-- What an arm of the dispatcher does with the node. -/
inductive Arm
  | funcDef   -- `handle_function_def`: recurse into `body`
  | simple    -- statement with an expression: handled, appended
  | noop      -- break / continue / pass: appended
  | ifS | whileS | forS   -- recurse into `body` and `orelse`
  | refuse    -- `raise NotImplementedError`
  | unknown   -- an arm the translator could not classify (treated as accepting)
  deriving DecidableEq, Repr, Inhabited

structure DispatchData where
  /-- the `if / elif` chain in source order: class names tested, arm taken -/
  chain : List (List String × Arm)
  /-- what the final `else` does (`refuse` in the pinned source) -/
  fallback : Arm
  /-- statement classes of the running interpreter with their MRO (class names) -/
  kinds : List (String × List String)
  /-- `handle_function_def` refuses a definition that is not the outermost statement -/
  nestedDefRefused : Bool
  deriving Repr, Inhabited

/-- A statement: its class name and the two statement lists a compound statement owns
    (`body`, `orelse`); simple statements have none. -/
inductive Stmt
  | node (kind : String) (body orelse : List Stmt)
  deriving Repr, Inhabited

def mroOf (d : DispatchData) (k : String) : List String :=
  match d.kinds.find? (·.1 == k) with
  | some p => p.2
  | none => [k]

/-- `isinstance` chain: the first arm one of whose classes is in the node's MRO. -/
def armOf (d : DispatchData) (k : String) : Arm :=
  match d.chain.find? (fun a => a.1.any fun c => (mroOf d k).contains c) with
  | some a => a.2
  | none => d.fallback

mutual
/-- `handle_ast_node(node)` at nesting depth `depth`: `true` = raised NotImplementedError. -/
def refusesStmt (d : DispatchData) (depth : Nat) : Stmt → Bool
  | .node k body orelse =>
    match armOf d k with
    | .refuse => true
    | .simple | .noop | .unknown => false
    | .funcDef => (d.nestedDefRefused && depth > 0) || refusesList d (depth + 1) body
    | .ifS | .whileS | .forS => refusesList d (depth + 1) body || refusesList d (depth + 1) orelse
/-- `codegen(tree)`: statements in order, stops at the first refusal. -/
def refusesList (d : DispatchData) (depth : Nat) : List Stmt → Bool
  | [] => false
  | s :: ss => refusesStmt d depth s || refusesList d depth ss
end

/-- `transform()`: the first top-level statement is the function; anything after it is not
    `self.tree[0]` (modelled as depth 1). -/
def refusesTop (d : DispatchData) : List Stmt → Bool
  | [] => false
  | f :: rest => refusesStmt d 0 f || refusesList d 1 rest

/-- The supported statement classes, as the property lists them. -/
def supportedKinds : List String :=
  ["FunctionDef", "Assign", "AugAssign", "Expr", "Return", "Pass", "If", "While", "For", "Break",
   "Continue"]

/-- `k` at nesting depth `depth` is outside the supported subset (a function definition is
    supported only as the outermost statement). -/
def unsupportedAt (depth : Nat) (k : String) : Bool :=
  !supportedKinds.contains k || (k == "FunctionDef" && depth > 0)

/-- which of the two statement lists a supported class really has -/
def ownsBody (k : String) : Bool := ["FunctionDef", "If", "While", "For"].contains k
def ownsOrelse (k : String) : Bool := ["If", "While", "For"].contains k

mutual
/-- Some statement of the program is outside the supported subset. Children of an unsupported
    statement are not inspected (the statement itself already is one); children of supported
    compound statements are. -/
def hasUnsupportedStmt (depth : Nat) : Stmt → Bool
  | .node k body orelse =>
    unsupportedAt depth k ||
    (ownsBody k && hasUnsupportedList (depth + 1) body) ||
    (ownsOrelse k && hasUnsupportedList (depth + 1) orelse)
def hasUnsupportedList (depth : Nat) : List Stmt → Bool
  | [] => false
  | s :: ss => hasUnsupportedStmt depth s || hasUnsupportedList depth ss
end

def hasUnsupportedTop : List Stmt → Bool
  | [] => false
  | f :: rest => hasUnsupportedStmt 0 f || hasUnsupportedList 1 rest

mutual
/-- every class name in the program is a statement class of the interpreter -/
def kindsKnownStmt (d : DispatchData) : Stmt → Bool
  | .node k body orelse =>
    d.kinds.any (·.1 == k) && kindsKnownList d body && kindsKnownList d orelse
def kindsKnownList (d : DispatchData) : List Stmt → Bool
  | [] => true
  | s :: ss => kindsKnownStmt d s && kindsKnownList d ss
end

/-- The dispatcher data refuses every unsupported class, refuses nested function definitions,
    and recurses into every statement list of the supported compound ones. Decidable; evaluated
    on the regenerated data each run. -/
def dispatchOK (d : DispatchData) : Bool :=
  (d.kinds.all fun p => supportedKinds.contains p.1 || armOf d p.1 == .refuse) &&
  armOf d "If" == .ifS && armOf d "While" == .whileS && armOf d "For" == .forS &&
  armOf d "FunctionDef" == .funcDef && d.nestedDefRefused

/-- Offenders, for reporting: (class, what is wrong). -/
def dispatchOffenders (d : DispatchData) : List String :=
  ((d.kinds.filter fun p => !(supportedKinds.contains p.1 || armOf d p.1 == .refuse)).map
    fun p => p.1 ++ ":accepted") ++
  (if armOf d "If" == .ifS then [] else ["If:not-recursed"]) ++
  (if armOf d "While" == .whileS then [] else ["While:not-recursed"]) ++
  (if armOf d "For" == .forS then [] else ["For:not-recursed"]) ++
  (if armOf d "FunctionDef" == .funcDef then [] else ["FunctionDef:not-recursed"]) ++
  (if d.nestedDefRefused then [] else ["FunctionDef:nested-accepted"])

end Scfg.Model
