import Scfg.Model.Iter
import Scfg.Spec.GraphDefs
/-!
# Specification of the two iterators (C16), as decidable predicates on the yielded names
-/
namespace Scfg.Spec
open Scfg Scfg.Model

/-- every entry below container `c` (all nesting depths) -/
def below (H : Hier) : Nat → Name → List Name
  | 0, _ => []
  | f + 1, c => (H.level c).foldl (fun acc b =>
      acc ++ [b.name] ++ (if b.isRegion then below H f b.name else [])) []

def sameSet (xs ys : List Name) : Bool := xs.all ys.contains && ys.all xs.contains

/-- `SCFG.__iter__`: every block and region of the whole hierarchy exactly once, head first. -/
def iterSpecOK (H : Hier) (c : Name) (out : List Name) : Bool :=
  Scfg.nodupL out && sameSet out (below H (H.length + 1) c) &&
  (match out, headRef (H.level c) with
   | h :: _, some h' => h == h'
   | [], _ => (H.level c).isEmpty
   | _, none => false)

/-- successors of an item in the concealed view: a region continues at its exiting block's
    targets -/
def viewSucc (H : Hier) (b : Blk) : List Name :=
  if b.isRegion then
    match H.getIn? b.name b.exiting with
    | some e => e.jt
    | none => []
  else b.jt

/-- the concealed view: exactly the level's own blocks and regions, each once, head first, every
    other item after at least one of its predecessors -/
def viewSpecOK (H : Hier) (c : Name) (out : List Name) : Bool :=
  Scfg.nodupL out && sameSet out ((H.level c).map (·.name)) &&
  (match out, headRef (H.level c) with
   | h :: _, some h' => h == h'
   | _, _ => false) &&
  (List.range out.length).all fun i =>
    i == 0 || match out[i]? with
      | none => false
      | some x => (out.take i).any fun p => match H.getIn? c p with
        | some pb => (viewSucc H pb).contains x
        | none => false

/-! ## computable sufficient condition for duplicate-freedom of `__iter__` (`Scfg.C16.uniqueB_sound`) -/

/-- what the iterator model yields below region `b`, or `none` if it does not answer -/
def yieldBelow (H : Hier) (f : Nat) (b : Blk) : Option (List Name) :=
  match iterAll H f b.name with
  | .ok out => some out
  | .error _ => none

def uniqueB (H : Hier) (f : Nat) : Bool :=
  H.all fun b => !b.isRegion ||
    match yieldBelow H f b with
    | none => false
    | some out =>
      out.all (fun x => (H.getIn? b.cont x).isNone) &&
      H.all fun b2 => !(b2.isRegion && b2.cont == b.cont && b2.name != b.name) ||
        match yieldBelow H f b2 with
        | none => false
        | some out2 => out.all (fun x => !out2.contains x)

end Scfg.Spec
