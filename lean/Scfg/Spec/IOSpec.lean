import Scfg.Model.IO
/-!
# Decidable hypotheses of the dictionary round-trip theorem (C15)

`ioReady H top` is evaluated by the harness on every real stage graph; `Scfg.C15.ioReady_sound`
turns a `true` answer into the hypothesis `IOReady` of `Scfg.C15.io_roundtrip`.
-/
namespace Scfg.Spec
open Scfg Scfg.Model

/-- Fields that do not belong to a block's type are empty, and a region records the region that
    contains it as its parent (C04, W6). The exporter produces hierarchies of this shape. -/
def normalBlk (b : Blk) : Bool :=
  if b.isRegion then
    b.parent == b.cont && b.pay.isEmpty && b.asg.isEmpty && b.var == "" && b.tbl.isEmpty
  else
    b.rkind == "" && b.header == "" && b.exiting == "" && b.parent == "" &&
    (if b.kind.isBranching then b.pay.isEmpty && b.asg.isEmpty
     else if b.kind == .synthAssign then b.pay.isEmpty && b.var == "" && b.tbl.isEmpty
     else if b.kind == .bytecode then b.asg.isEmpty && b.var == "" && b.tbl.isEmpty
     else b.pay.isEmpty && b.asg.isEmpty && b.var == "" && b.tbl.isEmpty)

def levelNames (H : Hier) (c : Name) : List Name := (H.level c).map (·.name)

/-- one round of the closure: add the successors of the non-exiting members already in `S` -/
def lreachStep (lvl : List Blk) (ex : Name) (S : List Name) : List Name :=
  S ++ (lvl.filter fun b => S.contains b.name && b.name != ex).flatMap (·.jts)

def lreachIter (lvl : List Blk) (ex : Name) : Nat → List Name → List Name
  | 0, S => S
  | f + 1, S => lreachIter lvl ex f (lreachStep lvl ex S)

/-- every member of region `r` is reached from its header without continuing past the exiting block -/
def lreachAll (H : Hier) (r : Blk) : Bool :=
  let lvl := H.level r.name
  let S := lreachIter lvl r.exiting lvl.length [r.header]
  lvl.all fun b => S.contains b.name

def ioReady (H : Hier) (top : Name) : Bool :=
  Scfg.nodupL H.names && !H.names.contains top && H.all normalBlk &&
  (H.all fun r => !r.isRegion ||
    ((levelNames H r.name).contains r.header &&
     ((H.level r.name).all fun b => b.name == r.exiting || b.jts.all fun t => (levelNames H r.name).contains t) &&
     lreachAll H r)) &&
  ((H.level top).all fun b => b.jts.all fun t => (levelNames H top).contains t)

end Scfg.Spec
