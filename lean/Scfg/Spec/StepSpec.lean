import Scfg.WF
/-!
# Decidable step relations: "wrapped into a region" and "spliced through an inserted block"

Evaluated by the harness on the whole hierarchy before and after each real `extract_region` /
`insert_block` call of the pipeline. `Scfg.C01.wrappedB_sound` / `Scfg.C14.splicedB_sound` turn a
`true` answer into the hypothesis of `wrapped_paths` / `spliced_paths`: that single step leaves every
path unchanged.
-/
namespace Scfg.Spec
open Scfg

def unwrapN (r hdr x : Name) : Name := if x == r then hdr else x

def injOn (f : Name → Name) (xs : List Name) : Bool :=
  xs.all fun x => xs.all fun y => f x != f y || x == y

def tblLook (t : List (Int × Name)) (x : Int) : Option Name := (t.find? (fun p => p.1 == x)).map (·.2)

/-- the two tables send every value to the same place, up to `f` (the order of the entries is free) -/
def tblRelB (f : Name → Name) (t t' : List (Int × Name)) : Bool :=
  (t.map (·.1) ++ t'.map (·.1)).all fun x => tblLook t x == (tblLook t' x).map f

def wrapRelB (r hdr : Name) (b b' : Blk) : Bool :=
  b'.name == b.name && b'.kind == b.kind && b'.var == b.var && b'.asg == b.asg &&
  b'.jts.map (unwrapN r hdr) == b.jts &&
  tblRelB (unwrapN r hdr) b.tbl b'.tbl &&
  unwrapN r hdr b'.header == b.header && injOn (unwrapN r hdr) b'.jts

/-- `H'` is `H` with a new region `r` (header `hdr`) and some names `hdr` renamed to `r` -/
def wrappedB (H H' : Hier) (r hdr : Name) : Bool :=
  (match H'.get? r with
   | some rb => rb.isRegion && rb.header == hdr
   | none => false) && hdr != r &&
  (H.names ++ H'.names).all fun n => n == r ||
    match H.get? n, H'.get? n with
    | none, none => true
    | some b, some b' => wrapRelB r hdr b b'
    | _, _ => false

def sameUpToB (new s : Name) (b b' : Blk) : Bool :=
  b' == { b with jts := b'.jts, tbl := b'.tbl } && b'.jts.map (unwrapN new s) == b.jts &&
  tblRelB (unwrapN new s) b.tbl b'.tbl && (!b.kind.isBranching || injOn (unwrapN new s) b'.jts)

/-- `H'` is `H` with a fresh non-branching synthetic block `new → s` spliced into arcs towards `s` -/
def splicedB (H H' : Hier) (new s : Name) : Bool :=
  s != new &&
  (match H'.get? new with
   | some nb => !nb.isRegion && !nb.isOrig && !nb.kind.isBranching && nb.kind != .synthAssign && nb.jts == [s]
   | none => false) &&
  ((H.names ++ H'.names).all fun n => n == new ||
    match H.get? n, H'.get? n with
    | none, none => true
    | some b, some b' => sameUpToB new s b b'
    | _, _ => false) &&
  H.all fun b => b.header != new

end Scfg.Spec
