import Scfg.WF
/-!
# Decidable step relations: "wrapped into a region" and "spliced through an inserted block"

Evaluated by the harness on the whole hierarchy before and after each real `extract_region` /
`insert_block` call of the pipeline. `Scfg.C01.wrappedB_sound` / `Scfg.C14.splicedB_sound` turn a
`true` answer into the hypothesis of `wrapped_paths` / `spliced_paths`: that single step leaves every
path unchanged.
-/
namespace Scfg.Spec
open Scfg

def unwrapN (r hdr x : Name) : Name := if x == r then hdr else x

def injOn (f : Name → Name) (xs : List Name) : Bool :=
  xs.all fun x => xs.all fun y => f x != f y || x == y

def tblLook (t : List (Int × Name)) (x : Int) : Option Name := (t.find? (fun p => p.1 == x)).map (·.2)

/-- the two tables send every value to the same place, up to `f` (the order of the entries is free) -/
def tblRelB (f : Name → Name) (t t' : List (Int × Name)) : Bool :=
  (t.map (·.1) ++ t'.map (·.1)).all fun x => tblLook t x == (tblLook t' x).map f

def wrapRelB (r hdr : Name) (b b' : Blk) : Bool :=
  b'.name == b.name && b'.kind == b.kind && b'.var == b.var && b'.asg == b.asg &&
  b'.jts.map (unwrapN r hdr) == b.jts &&
  tblRelB (unwrapN r hdr) b.tbl b'.tbl &&
  unwrapN r hdr b'.header == b.header && injOn (unwrapN r hdr) b'.jts

/-- `H'` is `H` with a new region `r` (header `hdr`) and some names `hdr` renamed to `r` -/
def wrappedB (H H' : Hier) (r hdr : Name) : Bool :=
  (match H'.get? r with
   | some rb => rb.isRegion && rb.header == hdr
   | none => false) && hdr != r &&
  (H.names ++ H'.names).all fun n => n == r ||
    match H.get? n, H'.get? n with
    | none, none => true
    | some b, some b' => wrapRelB r hdr b b'
    | _, _ => false

def sameUpToB (new s : Name) (b b' : Blk) : Bool :=
  b' == { b with jts := b'.jts, tbl := b'.tbl } && b'.jts.map (unwrapN new s) == b.jts &&
  tblRelB (unwrapN new s) b.tbl b'.tbl && (!b.kind.isBranching || injOn (unwrapN new s) b'.jts)

/-- `H'` is `H` with a fresh non-branching synthetic block `new → s` spliced into arcs towards `s` -/
def splicedB (H H' : Hier) (new s : Name) : Bool :=
  s != new &&
  (match H'.get? new with
   | some nb => !nb.isRegion && !nb.isOrig && !nb.kind.isBranching && nb.kind != .synthAssign && nb.jts == [s]
   | none => false) &&
  ((H.names ++ H'.names).all fun n => n == new ||
    match H.get? n, H'.get? n with
    | none, none => true
    | some b, some b' => sameUpToB new s b b'
    | _, _ => false) &&
  H.all fun b => b.header != new

/-! ## Rerouting arcs through chains of inserted blocks that assign / branch on fresh control variables

What `insert_block_and_control_blocks` does (assignment block → branching head), and what the loop
restructuring does to back edges and exits (assignment block → exiting latch [→ exit branch]). -/

/-- Follow a chain of inserted blocks from `n` to the first name that is not inserted, knowing only the
    values `σ` assigned along the chain (`none`: the chain's course is not determined by them). -/
def chainEnd (H' : Hier) (isNew isFresh : Name → Bool) : Nat → Name → Val → Option Name
  | 0, _, _ => none
  | f + 1, n, σ =>
    if !isNew n then some n else
    match H'.get? n with
    | none => none
    | some b =>
      if b.isRegion || b.isOrig then none
      else if b.kind.isBranching then
        if !isFresh b.var then none else
        match σ.get? b.var with
        | none => none
        | some x =>
          match (b.tbl.find? (fun p => p.1 == x)).map (·.2) with
          | none => none
          | some t =>
            match idxOf b.jts t with
            | none => none
            | some i =>
              match b.jts[i]? with
              | none => none
              | some t' => chainEnd H' isNew isFresh f t' (σ.erase b.var)
      else
        if b.asg.any (fun p => !isFresh p.1) then none else
        match b.jts with
        | [t] => chainEnd H' isNew isFresh f t (if b.kind == .synthAssign then σ.setAll b.asg else σ)
        | _ => none

/-- where an arc into an inserted chain used to go -/
def unr (H' : Hier) (isNew isFresh : Name → Bool) (K : Nat) (x : Name) : Name :=
  if isNew x then (chainEnd H' isNew isFresh K x []).getD x else x

def sameUpToUB (u : Name → Name) (b b' : Blk) : Bool :=
  b' == { b with jts := b'.jts, tbl := b'.tbl, bes := b'.bes } && b'.jts.map u == b.jts &&
  tblRelB u b.tbl b'.tbl && (!b.kind.isBranching || injOn u b'.jts)

/-- the block neither reads nor writes a fresh variable -/
def untouchedB (isFresh : Name → Bool) (b : Blk) : Bool :=
  (!b.kind.isBranching || !isFresh b.var) && b.asg.all (fun p => !isFresh p.1)

/-- `H'` is `H` plus inserted blocks (the names `H` does not have); arcs of old blocks may have been
    rerouted into chains of inserted blocks that end where the arc used to go, and old blocks do not
    touch the variables in `fresh` -/
def reroutedB (H H' : Hier) (fresh : List Name) : Bool :=
  let isNew := fun n => (H.get? n).isNone
  let isFresh := fun x => fresh.contains x
  let K := H'.length + 1
  let u := unr H' isNew isFresh K
  ((H.names ++ H'.names).all fun n => isNew n ||
    match H.get? n, H'.get? n with
    | some b, some b' => sameUpToUB u b b' && untouchedB isFresh b &&
        b'.jts.all (fun x => !isNew x || (chainEnd H' isNew isFresh K x []).isSome)
    | _, _ => false) &&
  H.all fun b => !isNew b.header || !b.isRegion

def varsOf (H : Hier) : List Name := H.flatMap fun b => b.var :: b.asg.map (·.1)

/-- the control variables `H'` uses and `H` does not -/
def freshVars (H H' : Hier) : List Name := (varsOf H').filter fun x => !(varsOf H).contains x

/-! ## Closing the graph: exits get the edge to one new halting block -/

def closedRelB (new : Name) (b b' : Blk) : Bool :=
  b' == { b with jts := b'.jts } && !b.jts.contains new &&
  (b'.jts == b.jts || (b.jts.isEmpty && b'.jts == [new] && !b.kind.isBranching))

def closedB (H H' : Hier) (new : Name) : Bool :=
  (H.get? new).isNone &&
  (match H'.get? new with
   | some nb => !nb.isRegion && !nb.isOrig && !nb.kind.isBranching && nb.jts.isEmpty
   | none => false) &&
  ((H.names ++ H'.names).all fun n => n == new ||
    match H.get? n, H'.get? n with
    | none, none => true
    | some b, some b' => closedRelB new b b'
    | _, _ => false) &&
  H.all fun b => b.header != new

/-! ## A whole run of the pipeline as a chain of certified steps -/

inductive StepTag
  | wrapped (r hdr : Name)
  | spliced (new s : Name)
  | rerouted
  | closed (new : Name)
  deriving Repr, Inhabited

def stepOK (H H' : Hier) : StepTag → Bool
  | .wrapped r hdr => (H.get? r).isNone && wrappedB H H' r hdr
  | .spliced new s => (H.get? new).isNone && splicedB H H' new s
  | .rerouted => reroutedB H H' (freshVars H H')
  | .closed new => closedB H H' new

def chainOK : Hier → List (StepTag × Hier) → Bool
  | _, [] => true
  | H, (t, H') :: rest => stepOK H H' t && chainOK H' rest

/-- the first step of the chain that does not pass its check -/
def chainFirstBad : Hier → List (StepTag × Hier) → Nat → Option Nat
  | _, [], _ => none
  | H, (t, H') :: rest, k => if stepOK H H' t then chainFirstBad H' rest (k + 1) else some k

/-- a flat graph of original blocks without dangling targets (the input of the pipeline) -/
def flatB (G : Hier) : Bool := G.all fun b => b.isOrig && b.jts.all fun t => (G.get? t).isSome

/-- every table entry of a branching block is one of its successors -/
def tblOKB (H : Hier) : Bool :=
  H.all fun b => !b.kind.isBranching || b.tbl.all fun p => b.jts.contains p.2

/-- the step check for the unconditional statement: additionally the tables of the result are in order -/
def stepOKc (H H' : Hier) (t : StepTag) : Bool := stepOK H H' t && tblOKB H'

def chainOKc : Hier → List (StepTag × Hier) → Bool
  | _, [] => true
  | H, (t, H') :: rest => stepOKc H H' t && chainOKc H' rest

/-- fuel (header fuel, step fuel) that provably suffices after a step, given fuel that sufficed before -/
def stepFuel (H' : Hier) : StepTag → Nat × Nat → Nat × Nat
  | .wrapped _ _, (R, F) => (2 * R, F)
  | .spliced _ _, (R, F) => (R, 2 * F)
  | .rerouted, (R, F) => (R, (H'.length + 2) * F)
  | .closed _, (R, F) => (R, F + 1)

def chainFuel : List (StepTag × Hier) → Nat × Nat → Nat × Nat
  | [], rf => rf
  | (t, H') :: rest, rf => chainFuel rest (stepFuel H' t rf)

/-- per step of the chain: does it pass its check -/
def chainBits : Hier → List (StepTag × Hier) → List Bool
  | _, [] => []
  | H, (t, H') :: rest => stepOKc H H' t :: chainBits H' rest

def chainLast : Hier → List (StepTag × Hier) → Hier
  | H, [] => H
  | _, (_, H') :: rest => chainLast H' rest

/-! ## The specification's own fuel suffices: header chains are short, synthetic blocks form no cycle -/

/-- every region's header chain ends at a block within `H.length + 1` steps -/
def hdrOK (H : Hier) : Bool := H.all fun b => !b.isRegion || (resolve H (H.length + 1) b.name).isSome

def synthBlocks (H : Hier) : List Blk := H.filter fun b => !b.isRegion && !b.isOrig

/-- the synthetic blocks a synthetic block can continue at (through region headers; back edges included) -/
def synthArcs (H : Hier) (a : Blk) : List Name :=
  a.jts.filterMap fun t => match resolve H (H.length + 1) t with
    | some b => if b.isOrig then none else some b.name
    | none => none

/-- ranks on the synthetic blocks that strictly increase along every arc between two of them: no walk
    passes more than `H.length` synthetic blocks between two original ones -/
def synthRanksOK (H : Hier) (rk : Ranks) : Bool :=
  (synthBlocks H).all fun a => match rk.get a.name with
    | none => false
    | some ra => ra ≤ H.length && (synthArcs H a).all fun t => match rk.get t with
      | none => false
      | some rt => ra < rt && rt ≤ H.length

/-- untrusted: ranks by peeling -/
def computeSynthRanks (H : Hier) : Ranks :=
  let tbl := (synthBlocks H).map fun a => (a.name, synthArcs H a)
  peelT (tbl.length + 1) 0 tbl []

def fuelOK (H : Hier) : Bool := hdrOK H && synthRanksOK H (computeSynthRanks H)

end Scfg.Spec
