import Scfg.WF
/-!
# Specification of the drawing (C17), as a decidable predicate on the parsed DOT source

A drawing is: nodes with the cluster they are drawn in, clusters with their parent cluster
(`""` = top), and edges (source, destination, dashed?).
-/
namespace Scfg.Spec
open Scfg

structure Drawing where
  nodes : List (Name × Name)
  clusters : List (Name × Name)
  edges : List (Name × Name × Bool)
  deriving Repr, Inhabited

/-- multiset equality of two lists -/
def sameMultiset {α : Type} [BEq α] (xs ys : List α) : Bool :=
  xs.length == ys.length && xs.all fun x => xs.count x == ys.count x

/-- The drawing the hierarchy prescribes: one node per non-region entry inside the cluster of its
    container, one cluster per region nested as the regions are, a solid edge per jump target and
    a dashed edge per back edge, drawn to the innermost header block of the destination. -/
def specDrawing (H : Hier) (top : Name) : Drawing where
  nodes := (H.filter fun b => !b.isRegion).map fun b => (b.name, if b.cont == top then "" else b.cont)
  clusters := (H.filter (·.isRegion)).map fun b => (b.name, if b.cont == top then "" else b.cont)
  edges :=
    (H.filter fun b => !b.isRegion).foldl (fun acc b =>
      acc ++
      (b.jt.filterMap fun t => (resolve H (H.length + 1) t).map fun x => (b.name, x.name, false)) ++
      (b.bes.filterMap fun t => (resolve H (H.length + 1) t).map fun x => (b.name, x.name, true))) []

def drawingOK (H : Hier) (top : Name) (d : Drawing) : Bool :=
  let s := specDrawing H top
  sameMultiset d.nodes s.nodes && sameMultiset d.clusters s.clusters && sameMultiset d.edges s.edges

end Scfg.Spec
