import Scfg.Model.Queries
/-!
# Reference definitions for the graph queries (C13), executable

Arcs are non-back-edge jump targets (`jt`); a path continues only through members of the level
but may end at an external name. These functions are *definitions by closure*, independent of
the worklist algorithms they are compared with; `Scfg/Props/C13.lean` relates them to the
inductive path predicates.
-/
namespace Scfg.Spec
open Scfg Scfg.Model

/-- successors of a name: its `jt` if it is a member of the level, nothing otherwise -/
def succOf (lvl : List Blk) (v : Name) : List Name :=
  match lvl.find? (·.name == v) with
  | some b => b.jt
  | none => []

/-- one round: add the successors of everything in `s` -/
def expand (lvl : List Blk) (s : List Name) : List Name :=
  dedup (s ++ s.foldl (fun acc v => acc ++ succOf lvl v) [])

def iter {α : Type} (f : α → α) : Nat → α → α
  | 0, x => x
  | n + 1, x => iter f n (f x)

/-- everything reachable from `a` by a path of at least one arc -/
def reachSet (lvl : List Blk) (a : Name) : List Name :=
  iter (expand lvl) (lvl.length + 1) (dedup (succOf lvl a))

def reachRef (lvl : List Blk) (a b : Name) : Bool := (reachSet lvl a).contains b

/-- The strongly connected components: for every member the set of members mutually reachable
    with it (itself included), as sorted lists, without repetition, in level order. -/
def sccRef (lvl : List Blk) : List (List Name) :=
  let comp (v : Name) : List Name :=
    sortNames ((lvl.map (·.name)).filter fun w => w == v || (reachRef lvl v w && reachRef lvl w v))
  (lvl.map fun b => comp b.name).foldl (fun acc c => if acc.contains c then acc else acc ++ [c]) []

/-- `succOf` with node `a` removed from the graph -/
def succAvoid (lvl : List Blk) (succ : Name → List Name) (a : Name) (v : Name) : List Name :=
  if v == a then [] else (succ v).filter fun t => t != a && lvl.any (·.name == t)

/-- nodes reachable (zero or more arcs) from the entries without touching `a` -/
def reachAvoid (lvl : List Blk) (succ : Name → List Name) (entries : List Name) (a : Name) : List Name :=
  let step (s : List Name) : List Name :=
    dedup (s ++ s.foldl (fun acc v => acc ++ succAvoid lvl succ a v) [])
  iter step (lvl.length + 1) (entries.filter (· != a))

/-- `a` dominates `b` w.r.t. `entries` and `succ`: every path from an entry to `b` passes `a`. -/
def domRefGen (lvl : List Blk) (succ : Name → List Name) (entries : List Name) (a b : Name) : Bool :=
  a == b || !(reachAvoid lvl succ entries a).contains b

def fwdSucc (lvl : List Blk) (v : Name) : List Name := inLevelSuccs lvl v
def bwdSucc (lvl : List Blk) (v : Name) : List Name := inLevelPreds lvl v

/-- The dominator sets of every member (sorted), by the path definition. -/
def domsRef (lvl : List Blk) : SetMap :=
  let nodes := lvl.map (·.name)
  let entries := nodes.filter fun n => (inLevelPreds lvl n).isEmpty
  nodes.map fun b => (b, sortNames (nodes.filter fun a => domRefGen lvl (fwdSucc lvl) entries a b))

def postDomsRef (lvl : List Blk) : SetMap :=
  let nodes := lvl.map (·.name)
  let entries := nodes.filter fun n => (inLevelSuccs lvl n).isEmpty
  nodes.map fun b => (b, sortNames (nodes.filter fun a => domRefGen lvl (bwdSucc lvl) entries a b))

/-- Immediate dominator by definition: the strict dominator that every other strict dominator
    dominates. -/
def immRef (d : SetMap) : List (Name × Name) :=
  d.foldl (fun out p =>
    let strict := p.2.filter (· != p.1)
    match strict.filter (fun c => strict.all fun o => (d.get c).contains o) with
    | [c] => out ++ [(p.1, c)]
    | _ => out) []

/-- Head by definition: the unique member no member names. -/
def headRef (lvl : List Blk) : Option Name :=
  match lvl.filter (fun b => !(lvl.any fun a => a.jt.contains b.name)) with
  | [h] => some h.name
  | _ => none

/-- Headers / entries of a subset by definition (entries look at `_jump_targets`, as coded). -/
def headersRef (lvl : List Blk) (sub : List Name) : List Name :=
  sortNames (dedup ((lvl.map (·.name)).filter fun h =>
    sub.contains h && lvl.any fun o => !sub.contains o.name && o.jts.contains h))
def entriesRef (lvl : List Blk) (sub : List Name) : List Name :=
  sortNames ((lvl.filter fun o => !sub.contains o.name && o.jts.any sub.contains).map (·.name))
def exitingRef (lvl : List Blk) (sub : List Name) : List Name :=
  sortNames (dedup ((lvl.filter fun b => sub.contains b.name &&
    (b.jt.isEmpty || b.jt.any fun t => !sub.contains t)).map (·.name)))
def exitsRef (lvl : List Blk) (sub : List Name) : List Name :=
  sortNames (dedup ((lvl.filter fun b => sub.contains b.name).foldl
    (fun acc b => acc ++ b.jt.filter fun t => !sub.contains t) []))


/-! ## Validator for strongly connected components (verified in `Scfg/Props/C13Scc.lean`) -/

def closedUnder (lvl : List Blk) (cl : List Name) : Bool :=
  cl.all fun x => (succOf lvl x).all fun y => cl.contains y

/-- "`b` is not reachable from `a`", certified by a successor-closed set that contains the
    successors of `a` and not `b` (the closure computed by `reachSet` is only a candidate). -/
def notReachCert (lvl : List Blk) (a b : Name) : Bool :=
  let cl := reachSet lvl a
  (succOf lvl a).all (fun y => cl.contains y) && closedUnder lvl cl && !cl.contains b

def disjointAll : List (List Name) → Bool
  | [] => true
  | c :: cs => cs.all (fun d => c.all fun x => !d.contains x) && disjointAll cs

def crossOK (lvl : List Blk) : List (List Name) → Bool
  | [] => true
  | c :: cs => cs.all (fun d => c.all fun a => d.all fun b =>
      notReachCert lvl a b || notReachCert lvl b a) && crossOK lvl cs

/-- The list `comps` is the set of strongly connected components of the level: a partition of the
    members; two different members of one component reach each other; members of different
    components do not reach each other both ways. -/
def sccValid (lvl : List Blk) (comps : List (List Name)) : Bool :=
  let nodes := lvl.map (·.name)
  nodes.all (fun v => comps.any fun c => c.contains v) &&
  comps.all (fun c => c.all fun v => nodes.contains v) &&
  disjointAll comps &&
  comps.all (fun c => c.all fun a => c.all fun b => a == b || reachRef lvl a b) &&
  crossOK lvl comps

end Scfg.Spec
