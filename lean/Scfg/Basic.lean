/-!
# Basic data model: blocks, flat region hierarchies, ordered-dict operations

Model files import nothing outside core Lean so that the driver links as a `lean_exe`.

A Python `SCFG` with nested `RegionBlock.subregion` graphs is represented *flat*: one `Blk`
entry per block or region of the whole hierarchy; `cont` is the name of the region whose
sub-graph holds the entry (the name of the outermost "meta" region for top-level entries).
Relative order of the entries of one container = insertion order of that Python `dict`.
-/
namespace Scfg

abbrev Name := String

/-- Block classes of `numba_scfg.core.datastructures.basic_block`. -/
inductive BKind
  | basic | bytecode | ast
  | synthHead | synthBranch | synthTail | synthExit | synthAssign | synthReturn
  | synthLatch | synthExitBranch | synthFill
  | region
  deriving DecidableEq, Repr, Inhabited

/-- Not a `SyntheticBlock`, not a `RegionBlock`: a block that came from the input. -/
def BKind.isOrig : BKind → Bool
  | .basic | .bytecode | .ast => true
  | _ => false

/-- Subclasses of `SyntheticBranch` (carry `variable` and `branch_value_table`). -/
def BKind.isBranching : BKind → Bool
  | .synthHead | .synthBranch | .synthLatch | .synthExitBranch => true
  | _ => false

def BKind.isRegion : BKind → Bool
  | .region => true
  | _ => false

structure Blk where
  /-- name of the containing region (meta region name for the top level) -/
  cont : Name := ""
  name : Name
  kind : BKind := .basic
  /-- `_jump_targets`, positional -/
  jts : List Name := []
  /-- `backedges` -/
  bes : List Name := []
  /-- payload: `[begin, end]` for bytecode blocks, statement ids for AST blocks -/
  pay : List Int := []
  /-- `variable_assignment`, insertion order -/
  asg : List (Name × Int) := []
  /-- `variable` -/
  var : Name := ""
  /-- `branch_value_table`, insertion order -/
  tbl : List (Int × Name) := []
  /-- regions only: `kind`, `header`, `exiting`, name of `parent_region` -/
  rkind : Name := ""
  header : Name := ""
  exiting : Name := ""
  parent : Name := ""
  deriving DecidableEq, Repr, Inhabited

abbrev Hier := List Blk

/-- The `jump_targets` property: `_jump_targets` without the declared back edges. -/
def Blk.jt (b : Blk) : List Name := b.jts.filter (fun t => !b.bes.contains t)

def Blk.isRegion (b : Blk) : Bool := b.kind.isRegion
def Blk.isOrig (b : Blk) : Bool := b.kind.isOrig

/-- Hierarchy-wide lookup by name (names are unique in a well-formed hierarchy). -/
def Hier.get? (H : Hier) (n : Name) : Option Blk := H.find? (fun b => b.name == n)

/-- Lookup inside one container only (`name in scfg.graph`). -/
def Hier.getIn? (H : Hier) (c n : Name) : Option Blk :=
  H.find? (fun b => b.cont == c && b.name == n)

/-- The entries of one container, in dict order. -/
def Hier.level (H : Hier) (c : Name) : List Blk := H.filter (fun b => b.cont == c)

def Hier.names (H : Hier) : List Name := H.map (·.name)

/-- Position of the first occurrence. -/
def idxOf (xs : List Name) (x : Name) : Option Nat :=
  let i := xs.findIdx (· == x)
  if i < xs.length then some i else none

/-- Control-variable valuation, kept sorted by variable name so that equal valuations are
    equal terms. -/
abbrev Val := List (Name × Int)

def Val.get? (v : Val) (x : Name) : Option Int := (v.find? (fun p => p.1 == x)).map (·.2)

def Val.set : Val → Name → Int → Val
  | [], x, i => [(x, i)]
  | (y, j) :: r, x, i =>
    if x == y then (x, i) :: r
    else if x < y then (x, i) :: (y, j) :: r
    else (y, j) :: Val.set r x i

def Val.erase (v : Val) (x : Name) : Val := v.filter (fun p => p.1 != x)

def Val.setAll (v : Val) (a : List (Name × Int)) : Val := a.foldl (fun v p => v.set p.1 p.2) v

def zipAllB {α β : Type} (p : α → β → Bool) : List α → List β → Bool
  | [], [] => true
  | a :: as, b :: bs => p a b && zipAllB p as bs
  | _, _ => false

def nodupL : List Name → Bool
  | [] => true
  | x :: xs => !xs.contains x && nodupL xs

end Scfg
