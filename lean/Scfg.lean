-- Root of the `Scfg` library.
import Scfg.Basic
import Scfg.Sim
import Scfg.Sem
import Scfg.WF
import Scfg.Codec
import Scfg.Model.Edit
import Scfg.Model.EditSpec
import Scfg.Model.Names
import Scfg.Model.Queries
import Scfg.Model.Iter
import Scfg.Spec.GraphDefs
import Scfg.Spec.IterSpec
import Scfg.Model.Bytecode
import Scfg.Model.Dispatch
import Scfg.Spec.RenderSpec
import Scfg.Py.Syntax
import Scfg.Py.Micro
