import Scfg
/-!
# Line-protocol driver (glue)

One request per input line, exactly one reply line per request.

    G <top> <hier>     set the original graph             → ok
    H <top> <hier>     set the hierarchy under test       → ok
    CHK                run all deciders on (G, H)          → k=v ...
    DIAG               first offending pair of each walk   → text
-/
open Scfg

open Scfg.Py in
mutual
partial def pE : List String → Option (E × List String)
  | "v" :: x :: r => some (.var x, r)
  | "c" :: rp :: t :: r => some (.cst ⟨rp, t == "1"⟩, r)
  | "l" :: id :: n :: r => do
    let k ← n.toNat?
    some (.leaf (← id.toNat?) (r.take k), r.drop k)
  | "bo" :: a :: n :: r => do
    let (es, r') ← pEs (← n.toNat?) r
    some (.boolop (a == "1") es, r')
  | "bi" :: id :: r => do
    let (l, r1) ← pE r
    let (rr, r2) ← pE r1
    some (.binop (← id.toNat?) l rr, r2)
  | "ca" :: id :: r => do
    let (f, r1) ← pE r
    match r1 with
    | n :: r2 => do
      let (es, r3) ← pEs (← n.toNat?) r2
      some (.call (← id.toNat?) f es, r3)
    | [] => none
  | "cm" :: id :: r => do
    let (l, r1) ← pE r
    match r1 with
    | n :: r2 => do
      let (es, r3) ← pEs (← n.toNat?) r2
      some (.compare (← id.toNat?) l es, r3)
    | [] => none
  | "no" :: r => do
    let (e, r1) ← pE r
    some (.notE e, r1)
  | "in" :: x :: n :: r => do
    let k ← n.toNat?
    let vs ← (r.take k).mapM String.toInt?
    some (.inT x vs, r.drop k)
  | "ns" :: x :: r => some (.neSent x, r)
  | "it" :: id :: r => do
    let (e, r1) ← pE r
    some (.iterOf (← id.toNat?) e, r1)
  | "nx" :: id :: x :: r => do some (.nextOf (← id.toNat?) x, r)
  | _ => none
partial def pEs : Nat → List String → Option (List E × List String)
  | 0, r => some ([], r)
  | n + 1, r => do
    let (e, r1) ← pE r
    let (es, r2) ← pEs n r1
    some (e :: es, r2)
partial def pS : List String → Option (S × List String)
  | "as" :: x :: r => do
    let (e, r1) ← pE r
    some (.assign x e, r1)
  | "st" :: id :: n :: r => do
    let k ← n.toNat?
    let (e, r1) ← pE (r.drop k)
    some (.store (← id.toNat?) (r.take k) e, r1)
  | "ex" :: r => do
    let (e, r1) ← pE r
    some (.expr e, r1)
  | "re" :: r => do
    let (e, r1) ← pE r
    some (.ret e, r1)
  | "pa" :: r => some (.pass, r)
  | "br" :: r => some (.brk, r)
  | "co" :: r => some (.cont, r)
  | "if" :: r => do
    let (e, r1) ← pE r
    let (b, r2) ← pL r1
    let (o, r3) ← pL r2
    some (.ifS e b o, r3)
  | "wh" :: r => do
    let (e, r1) ← pE r
    let (b, r2) ← pL r1
    let (o, r3) ← pL r2
    some (.whileS e b o, r3)
  | "fo" :: id :: x :: r => do
    let (e, r1) ← pE r
    let (b, r2) ← pL r1
    let (o, r3) ← pL r2
    some (.forS (← id.toNat?) x e b o, r3)
  | "un" :: w :: r => some (.unsupported w, r)
  | _ => none
partial def pL : List String → Option (List S × List String)
  | n :: r => do pLn (← n.toNat?) r
  | [] => none
partial def pLn : Nat → List String → Option (List S × List String)
  | 0, r => some ([], r)
  | n + 1, r => do
    let (s, r1) ← pS r
    let (ss, r2) ← pLn n r1
    some (s :: ss, r2)
end

open Scfg.Py in
partial def pBlocks : Nat → List String → Option (List PBlock × List String)
  | 0, r => some ([], r)
  | n + 1, name :: r => do
    let (ss, r1) ← pL r
    match r1 with
    | "1" :: r2 => do
      let (e, r3) ← pE r2
      match r3 with
      | nj :: r4 => do
        let k ← nj.toNat?
        let (bs, r5) ← pBlocks n (r4.drop k)
        some ({ name := name, stmts := ss, test := some e, jts := r4.take k } :: bs, r5)
      | [] => none
    | "0" :: nj :: r4 => do
      let k ← nj.toNat?
      let (bs, r5) ← pBlocks n (r4.drop k)
      some ({ name := name, stmts := ss, test := none, jts := r4.take k } :: bs, r5)
    | _ => none
  | _, _ => none

open Scfg.Py in
mutual
partial def prE : E → List String
  | .var x => ["v", x]
  | .cst c => ["c", c.repr, if c.truthy then "1" else "0"]
  | .leaf id reads => ["l", toString id, toString reads.length] ++ reads
  | .boolop a args => ["bo", if a then "1" else "0", toString args.length] ++ prEs args
  | .binop id l r => ["bi", toString id] ++ prE l ++ prE r
  | .call id f args => ["ca", toString id] ++ prE f ++ [toString args.length] ++ prEs args
  | .compare id l rest => ["cm", toString id] ++ prE l ++ [toString rest.length] ++ prEs rest
  | .notE e => ["no"] ++ prE e
  | .inT x vals => ["in", x, toString vals.length] ++ vals.map toString
  | .neSent x => ["ns", x]
  | .iterOf id e => ["it", toString id] ++ prE e
  | .nextOf id it => ["nx", toString id, it]
partial def prEs : List E → List String
  | [] => []
  | e :: es => prE e ++ prEs es
partial def prS : S → List String
  | .assign x e => ["as", x] ++ prE e
  | .store id reads e => ["st", toString id, toString reads.length] ++ reads ++ prE e
  | .expr e => ["ex"] ++ prE e
  | .ret e => ["re"] ++ prE e
  | .pass => ["pa"]
  | .brk => ["br"]
  | .cont => ["co"]
  | .ifS t b o => ["if"] ++ prE t ++ prL b ++ prL o
  | .whileS t b o => ["wh"] ++ prE t ++ prL b ++ prL o
  | .forS id x e b o => ["fo", toString id, x] ++ prE e ++ prL b ++ prL o
  | .unsupported w => ["un", w]
partial def prL : List S → List String
  | ss => [toString ss.length] ++ prSs ss
partial def prSs : List S → List String
  | [] => []
  | s :: ss => prS s ++ prSs ss
end

open Scfg.Py in
def prBlocks (bs : List Model.WBlock) : List String :=
  [toString bs.length] ++ (bs.foldl (fun acc b =>
    let instrs := b.instrs
    let (body, test) : List Model.Instr × Option E :=
      if b.jts.length == 2 then
        match instrs.getLast? with
        | some (.e t) => (instrs.dropLast, some t)
        | some (.s (.expr t)) => (instrs.dropLast, some t)
        | _ => (instrs, none)
      else (instrs, none)
    let stmts : List S := body.map fun i => match i with
      | .s st => st
      | .e x => .expr x
    acc ++ [toString b.name] ++ prL stmts ++
      (match test with
       | some t => ["1"] ++ prE t
       | none => ["0"]) ++
      [toString b.jts.length] ++ b.jts.map toString) [])

def pParams : List String → Option (List String × List String)
  | n :: r => do
    let k ← n.toNat?
    some (r.take k, r.drop k)
  | [] => none

structure DState where
  g : Hier := []
  gtop : Name := ""
  h : Hier := []
  htop : Name := ""
  /-- model state for `OP` requests -/
  m : Model.St := { H := [], ng := [] }
  pa : Py.MProg := #[]
  pb : Py.MProg := #[]
  pparams : List String := []
  /-- a pipeline run as a chain of hierarchies (most recent first) -/
  chain0 : Hier := []
  chain : List (Spec.StepTag × Hier) := []

def parseNg (s : String) : Except String Model.NameGen :=
  if s == "-" || s.isEmpty then pure [] else
  (s.splitOn ",").mapM fun p => match parseKV p with
    | some (k, v) => match v.toNat? with
      | some i => pure (k, i)
      | none => throw s!"bad ng {p}"
    | none => throw s!"bad ng {p}"

def parseReqs (s : String) : Except String (List Model.Req) :=
  (lstOf s).mapM fun p => match p.splitOn ":" with
    | ["b", k] => pure (Model.Ns.block, k)
    | ["r", k] => pure (Model.Ns.region, k)
    | ["v", k] => pure (Model.Ns.var, k)
    | _ => throw s!"bad request {p}"
where lstOf (s : String) : List String := if s == "-" then [] else splitList s

def printNg (ng : Model.NameGen) : String :=
  if ng.isEmpty then "-" else commaJoin (ng.map fun p => s!"{p.1}={p.2}")

def lst (s : String) : List String := if s == "-" then [] else splitList s

def parseTables (s : String) : Option Model.OpTables :=
  match s.splitOn ";" with
  | [c, u, t] => some { cond := lst c, uncond := lst u, term := lst t }
  | _ => none

def parseIns (s : String) : Option (List Model.Ins) :=
  (lst s).mapM fun p => match p.splitOn ":" with
    | [o, op, a, t] => do
      let o ← o.toNat?
      let a ← a.toNat?
      pure { off := o, op := op, arg := a, isTarget := t == "1" }
    | _ => none

def parseTIns (s : String) : Option (List Model.TIns) :=
  (lst s).mapM fun p => match p.splitOn ":" with
    | [o, sz, c, t] => do
      let o ← o.toNat?
      let sz ← sz.toNat?
      let t ← t.toNat?
      let c ← match c with
        | "c" => some Model.Cls.cond
        | "u" => some Model.Cls.uncond
        | "r" => some Model.Cls.ret
        | "o" => some Model.Cls.other
        | _ => none
      pure { off := o, size := sz, cls := c, target := t }
    | _ => none

def parseArm : String → Model.Arm
  | "funcDef" => .funcDef | "simple" => .simple | "noop" => .noop | "ifS" => .ifS
  | "whileS" => .whileS | "forS" => .forS | "refuse" => .refuse | _ => .unknown

/-- `chain;fallback;nested;kinds` with chain = `A+B:arm,C:arm`, kinds = `Name:mro1+mro2,...` -/
def parseDispatch (s : String) : Option Model.DispatchData :=
  match s.splitOn ";" with
  | [ch, fb, ne, ks] =>
    let chain := (lst ch).filterMap fun e => match e.splitOn ":" with
      | [cls, arm] => some (cls.splitOn "+", parseArm arm)
      | _ => none
    let kinds := (lst ks).filterMap fun e => match e.splitOn ":" with
      | [n, mro] => some (n, mro.splitOn "+")
      | _ => none
    some { chain := chain, fallback := parseArm fb, kinds := kinds, nestedDefRefused := ne == "1" }
  | _ => none

/-- programs: `Kind[stmts][stmts]`, statements juxtaposed -/
partial def parseStmts (cs : List Char) : List Model.Stmt × List Char :=
  match cs with
  | [] => ([], [])
  | ']' :: _ => ([], cs)
  | _ =>
    let name := cs.takeWhile fun c => c != '['
    let rest := cs.dropWhile fun c => c != '['
    match rest with
    | '[' :: r1 =>
      let (body, r2) := parseStmts r1
      match r2 with
      | ']' :: '[' :: r3 =>
        let (orelse, r4) := parseStmts r3
        match r4 with
        | ']' :: r5 =>
          let (more, r6) := parseStmts r5
          (Model.Stmt.node (String.ofList name) body orelse :: more, r6)
        | _ => ([], [])
      | _ => ([], [])
    | _ => ([], [])

def cj (xs : List String) : String := if xs.isEmpty then "-" else commaJoin xs

def showM {α : Type} (r : Model.M α) (f : α → String) : String :=
  match r with
  | .ok a => "ok " ++ f a
  | .error e => "abort " ++ e.toString

def showSetMap (m : Model.SetMap) : String :=
  if m.isEmpty then "-" else ";".intercalate (m.map fun p => p.1 ++ ":" ++ cj (Model.sortNames p.2))

def showPairs (m : List (Name × Name)) : String :=
  if m.isEmpty then "-" else ";".intercalate (m.map fun p => p.1 ++ ":" ++ p.2)

def reply (st : DState) (r : Model.M Model.St) (extra : String := "") : DState × String :=
  match r with
  | .ok m => ({ st with m := m }, s!"ok {printHier m.H} {printNg m.ng}{extra}")
  | .error a => (st, s!"abort {a.toString}")

def bit (b : Bool) : String := if b then "1" else "0"

def bits (cs : List (String × Bool)) : String := String.join (cs.map fun c => bit c.2)

def diagSim {β : Type} [BEq β] [Hashable β] [Repr β] (A : Sys (Option Name)) (B : Sys β) (a0 : Option Name) (b0 : β)
    (fuel : Nat) : String :=
  let (R, _) := buildCert A B a0 b0 fuel
  match R.toList.find? (fun p => !(A.obs p.1 == B.obs p.2)) with
  | none => "closed"
  | some p => s!"orig={repr (A.obs p.1)} here={repr (B.obs p.2)} state={repr p.2}"

/-- one pseudo-random walk of both systems (failing-input search, not a decision procedure):
    `some ds` = the decisions after which the two observations differ -/
def walkDiff {α β : Type} (A : Sys α) (B : Sys β) : Nat → Nat → α → β → List Nat → Option (List Nat)
  | 0, _, _, _, _ => none
  | len + 1, rnd, a, b, acc =>
    if A.obs a != B.obs b then some acc.reverse
    else
      let k := (A.obs a).arity
      if k == 0 then none else
      let rnd' := (rnd * 6364136223846793005 + 1442695040888963407) % 18446744073709551616
      let d := (rnd' / 65536) % k
      walkDiff A B len rnd' (A.step a d) (B.step b d) (d :: acc)

def walksDiff {α β : Type} (A : Sys α) (B : Sys β) (a0 : α) (b0 : β) (n len seed : Nat) : Option (List Nat) :=
  (List.range n).findSome? fun i => walkDiff A B len (seed + 7919 * i + 1) a0 b0 []

def step (st : DState) (line : String) : DState × String :=
  let line := line.trimAscii.toString
  match line.splitOn " " with
  | ["G", top, h] => match parseHier h with
    | .ok g => ({ st with g := g, gtop := top }, "ok")
    | .error e => (st, s!"parse-error {e}")
  | ["H", top, h] => match parseHier h with
    | .ok hh => ({ st with h := hh, htop := top }, "ok")
    | .error e => (st, s!"parse-error {e}")
  | ["WALKS", n, len, seed] =>
    match n.toNat?, len.toNat?, seed.toNat? with
    | some n, some len, some seed =>
      let G := st.g; let H := st.h
      (st, match walksDiff (sysOrig G) (sysName H false) (initOrig G st.gtop) (initName H st.htop false) n len seed with
        | none => "ok"
        | some ds => "diff " ++ ",".intercalate (ds.map toString))
    | _, _, _ => (st, "bad-args")
  | ["CHAIN0", _, h] => match parseHier h with
    | .ok g => ({ st with chain0 := g, chain := [] }, "ok")
    | .error e => (st, s!"parse-error {e}")
  | ["CHAINSTEP", tag, a, b, _, h] => match parseHier h with
    | .ok hh =>
      let t : Option Spec.StepTag := match tag with
        | "wrapped" => some (.wrapped a b)
        | "spliced" => some (.spliced a b)
        | "rerouted" => some .rerouted
        | "closed" => some (.closed a)
        | _ => none
      match t with
      | some t => ({ st with chain := (t, hh) :: st.chain }, "ok")
      | none => (st, "bad-tag")
    | .error e => (st, s!"parse-error {e}")
  | ["CHAINEND"] =>
    let steps := st.chain.reverse
    let bad := match Spec.chainFirstBad st.chain0 steps 0 with
      | none => "-"
      | some k => toString k
    let fuel := Spec.chainFuel steps (1, 1)
    let last := Spec.chainLast st.chain0 steps
    let specFuel := Spec.fuelOK last
    let regionOK := wf last && s2 last && contsOK last
    (st, s!"flat={bit (Spec.flatB st.chain0)} chain={bit (Spec.chainOK st.chain0 steps)} total={bit (Spec.chainOKc st.chain0 steps)} steps={steps.length} firstbad={bad} bits={String.join ((Spec.chainBits st.chain0 steps).map bit)}- specfuel={bit specFuel} region={bit regionOK} fuelR={fuel.1} fuelF={fuel.2}")
  | ["CHK"] =>
    let G := st.g; let H := st.h
    let out := " ".intercalate [
      s!"simName={bit (simNameOK G H st.gtop st.htop false)}",
      s!"simRegion={bit (simRegionOK G H st.gtop st.htop false)}",
      s!"simNameC={bit (simNameOK G H st.gtop st.htop true)}",
      s!"simRegionC={bit (simRegionOK G H st.gtop st.htop true)}",
      s!"wf={bits (wfClauses H)}",
      s!"structured={bits (structuredClauses H st.htop)}",
      s!"conts={bit (contsOK H)}",
      s!"conserved={bit (conserved G H)}",
      s!"tables={bit (tablesOK H)}",
      s!"ctl={bit (ctlOK H st.htop)}"]
    (st, out)
  | ["DIAG"] =>
    let G := st.g; let H := st.h
    let f := simFuel G H
    let a0 := initOrig G st.gtop
    (st, " ## ".intercalate [
      "name: " ++ diagSim (sysOrig G) (sysName H false) a0 (initName H st.htop false) f,
      "region: " ++ diagSim (sysOrig G) (sysRegion H false) a0 (initRegion H st.htop false) f,
      "nameC: " ++ diagSim (sysOrig G) (sysName H true) a0 (initName H st.htop true) f,
      "regionC: " ++ diagSim (sysOrig G) (sysRegion H true) a0 (initRegion H st.htop true) f])
  | ["ECHO"] => (st, printHier st.h)
  | "PYA" :: r => match pParams r with
    | some (ps, r1) => match pL r1 with
      | some (body, []) => ({ st with pa := Py.compileFn body, pparams := ps }, "ok")
      | _ => (st, "parse-error")
    | none => (st, "parse-error")
  | "PYB" :: r => match pParams r with
    | some (_, r1) => match pL r1 with
      | some (body, []) => ({ st with pb := Py.compileFn body }, "ok")
      | _ => (st, "parse-error")
    | none => (st, "parse-error")
  | "PYCFGB" :: n :: r => match n.toNat? with
    | some k => match pBlocks k r with
      | some (bs, []) => ({ st with pb := Py.compileCfg bs }, "ok")
      | _ => (st, "parse-error")
    | none => (st, "parse-error")
  | "PYAV" :: fp :: fh :: r => match pParams r with
    | some (ps, r1) => match pL r1 with
      | some (body, []) =>
        ({ st with pa := Py.compileFn body { forPreset := fp == "1", feHoist := fh == "1" }, pparams := ps }, "ok")
      | _ => (st, "parse-error")
    | none => (st, "parse-error")
  | "FE" :: r => match pParams r with
    | some (_, r1) => match pL r1 with
      | some (body, []) =>
        let hyp := match Model.ast2cfgPre body with
          | .ok pre => if Model.pruneHypOK pre then "1" else "0"
          | .error _ => "-"
        match Model.ast2cfg body with
        | .ok bs => (st, "ok hyp=" ++ hyp ++ " " ++ " ".intercalate (prBlocks bs))
        | .error e => (st, "abort " ++ e)
      | _ => (st, "parse-error")
    | none => (st, "parse-error")
  | "RT" :: r => match pParams r with
    | some (_, r1) => match pL r1 with
      | some (body, []) => match Model.roundtrip body with
        | .ok out => (st, "ok " ++ " ".intercalate (prL out))
        | .error e => (st, "abort " ++ e)
      | _ => (st, "parse-error")
    | none => (st, "parse-error")
  | ["PYSIM"] =>
    let a := Py.sysOf st.pa; let b := Py.sysOf st.pb
    let a0 := Py.initOfParams st.pa st.pparams; let b0 := Py.initOfParams st.pb st.pparams
    let (R, cert) := buildCert a b a0 b0 200000
    if verifyCert a b R cert a0 b0 then (st, s!"1 pairs={R.size}")
    else match R.toList.find? (fun p => !(a.obs p.1 == b.obs p.2)) with
      | some p => (st, s!"0 A:[{repr (a.obs p.1)}] B:[{repr (b.obs p.2)}]")
      | none => (st, s!"0 search-limit-reached pairs={R.size}")
  | ["PYRUN", which, ds] =>
    let p := if which == "A" then st.pa else st.pb
    let s := Py.sysOf p
    let tr := run s (Py.initOfParams p st.pparams) (ds.toList.map fun c => if c == '0' then 0 else 1)
    (st, " // ".intercalate (tr.map fun o => match o with
      | .blk n k => s!"{n}#{k}"
      | o => reprStr o))
  | ["SPEC", "insert_block", c, new, ps, ss] =>
    (st, bit (Model.insertSpecOK st.g st.h c new (lst ps) (lst ss)))
  | ["SPEC", "insert_ctl", c, new, ps, ss] =>
    (st, bit (Model.insertCtlSpecOK st.g st.h c new (lst ps) (lst ss)))
  | ["SPEC", "join_returns", c] => (st, bit (Model.joinReturnsSpecOK st.g st.h c))
  | ["NG", ng, reqs] => match parseNg ng, parseReqs reqs with
    | .ok n, .ok rs =>
      let names := Model.runNames n rs
      let final := rs.foldl (fun g r => (Model.request g r).2) n
      (st, s!"{commaJoin names} {printNg final}")
    | _, _ => (st, "bad-request")
  | ["RSV", ng, names] => match parseNg ng with
    | .ok n => (st, printNg ((lst names).foldl (fun g nm => g.reserve nm) n))
    | .error _ => (st, "bad-request")
  | ["PREFIXOK", reqs] => match parseReqs reqs with
    | .ok rs => (st, bit (Model.prefixesOK rs))
    | .error _ => (st, "bad-request")
  | ["Q", "find_head", c] => (st, showM (Model.findHead st.h c) id)
  | ["Q", "headers_entries", c, sub] =>
    (st, showM (Model.headersEntries st.h (st.h.length + 2) c (lst sub)) fun r => s!"{cj r.1} {cj r.2}")
  | ["Q", "exiting_exits", c, sub] =>
    (st, showM (Model.exitingExits st.h c (lst sub)) fun r => s!"{cj r.1} {cj r.2}")
  | ["Q", "reach", c, a, b] => (st, showM (Model.reachDfs st.h c a b) bit)
  | ["Q", "scc", c] => (st, showM (Model.computeScc st.h c) fun r =>
      if r.isEmpty then "-" else ";".intercalate (r.map fun s => cj (Model.sortNames s)))
  | ["Q", "doms", c] => (st, showM (Model.doms st.h c) showSetMap)
  | ["Q", "pdoms", c] => (st, showM (Model.postDoms st.h c) showSetMap)
  | ["Q", "imm", c] => (st, showM (Model.doms st.h c >>= Model.immDoms) showPairs)
  | ["Q", "immp", c] => (st, showM (Model.postDoms st.h c >>= Model.immDoms) showPairs)
  | ["R", "reach", c, a, b] => (st, "ok " ++ bit (Spec.reachRef (st.h.level c) a b))
  | ["R", "scc", c] =>
    let r := Spec.sccRef (st.h.level c)
    (st, "ok " ++ if r.isEmpty then "-" else ";".intercalate (r.map cj))
  | ["SPEC", "scc", c, comps] =>
    (st, bit (Spec.sccValid (st.h.level c) (if comps == "-" then [] else (comps.splitOn ";").map lst)))
  | ["R", "doms", c] => (st, "ok " ++ showSetMap (Spec.domsRef (st.h.level c)))
  | ["R", "pdoms", c] => (st, "ok " ++ showSetMap (Spec.postDomsRef (st.h.level c)))
  | ["R", "imm", c] => (st, "ok " ++ showPairs (Spec.immRef (Spec.domsRef (st.h.level c))))
  | ["R", "immp", c] => (st, "ok " ++ showPairs (Spec.immRef (Spec.postDomsRef (st.h.level c))))
  | ["R", "find_head", c] => (st, match Spec.headRef (st.h.level c) with
      | some h => "ok " ++ h
      | none => "none")
  | ["R", "headers_entries", c, sub] =>
    (st, s!"ok {cj (Spec.headersRef (st.h.level c) (lst sub))} {cj (Spec.entriesRef (st.h.level c) (lst sub))}")
  | ["R", "exiting_exits", c, sub] =>
    (st, s!"ok {cj (Spec.exitingRef (st.h.level c) (lst sub))} {cj (Spec.exitsRef (st.h.level c) (lst sub))}")
  | ["SPEC", "census", exp, got] => (st, bit (Spec.sameMultiset (lst exp) (lst got)))
  | ["SPEC", "same_hier"] => (st, bit (sameHier st.g st.h))
  | ["SPEC", "tables_preserved"] => (st, bit (tablesPreserved st.g st.h))
  | ["SPEC", "iter", c, out] => (st, bit (Spec.iterSpecOK st.h c (lst out)))
  | ["SPEC", "uniq"] => (st, bit (Spec.uniqueB st.h (st.h.length + 2)))
  | ["SPEC", "view", c, out] => (st, bit (Spec.viewSpecOK st.h c (lst out)))
  | ["BC", tabs, ins] => match parseTables tabs, parseIns ins with
    | some T, some is => (st, showM (Model.buildBlocks (Model.fromBytecode T is)) printHier)
    | _, _ => (st, "bad-request")
  | ["BCSPEC", ins] => match parseTIns ins with
    | some is => (st, "ok " ++ ";".intercalate ((Model.specBlocks is).map fun b =>
        s!"{b.1}:{"+".intercalate (b.2.1.map toString)}:{"+".intercalate (b.2.2.map toString)}"))
    | none => (st, "bad-request")
  | ["GI", offs, ranges] =>
    let os := (lst offs).filterMap (·.toNat?)
    (st, ";".intercalate ((lst ranges).map fun r => match r.splitOn ":" with
      | [b, e] => cj ((Model.getInstructions os (b.toNat?.getD 0) (e.toNat?.getD 0)).map toString)
      | _ => "bad-range"))
  | ["DISPATCH", data] => match parseDispatch data with
    | some dd => (st, s!"{bit (Model.dispatchOK dd)} {cj (Model.dispatchOffenders dd)}")
    | none => (st, "bad-request")
  | ["REFUSES", data, prog] => match parseDispatch data with
    | some dd =>
      let p := (parseStmts prog.toList).1
      (st, s!"{bit (Model.refusesTop dd p)} {bit (Model.hasUnsupportedTop p)} {bit (Model.kindsKnownList dd p)}")
    | none => (st, "bad-request")
  | ["SPEC", "drawing", top, ns, cs, es] =>
    let pair (s : String) : Option (Name × Name) := match s.splitOn "@" with
      | [a, b] => some (a, b)
      | _ => none
    let edge (s : String) : Option (Name × Name × Bool) := match s.splitOn ">" with
      | [a, r] => match r.splitOn ":" with
        | [b, k] => some (a, b, k == "d")
        | _ => none
      | _ => none
    let dr : Spec.Drawing := { nodes := (lst ns).filterMap pair, clusters := (lst cs).filterMap pair,
                               edges := (lst es).filterMap edge }
    (st, bit (Spec.drawingOK st.h top dr))
  | ["RENDER", top, bf] => (st, showM (Model.renderM st.h top (bf == "1")) fun d =>
      s!"{cj (d.nodes.map fun p => p.1 ++ "@" ++ p.2)} {cj (d.clusters.map fun p => p.1 ++ "@" ++ p.2)} {cj (d.edges.map fun e => e.1 ++ ">" ++ e.2.1 ++ ":" ++ (if e.2.2 then "d" else "s"))}")
  | ["SPEC", "wrapped", r, hdr] => (st, bit (Spec.wrappedB st.g st.h r hdr))
  | ["SPEC", "closed", new, _] => (st, bit (Spec.closedB st.g st.h new))
  | ["SPEC", "rerouted"] => (st, bit (Spec.reroutedB st.g st.h (Spec.freshVars st.g st.h)))
  | ["SPEC", "spliced", new, s] => (st, bit (Spec.splicedB st.g st.h new s))
  | ["SPEC", "io_ready", top] => (st, bit (Spec.ioReady st.h top))
  | ["IO", "to_dict", top] => (st, showM (Model.toDict st.h top) printDict)
  | ["IO", "from_dict", fresh, d] => match parseDict d with
    | .ok D => (st, showM (Model.fromDict D fresh) fun r => s!"{r.1} {printHier r.2}")
    | .error e => (st, s!"parse-error {e}")
  | ["IT", "iter", c] => (st, showM (Model.iterAll st.h (st.h.length + 2) c) cj)
  | ["IT", "view", c] => (st, showM (Model.viewIter st.h c) cj)
  | ["S", h, ng] => match parseHier h, parseNg ng with
    | .ok hh, .ok n => ({ st with m := { H := hh, ng := n } }, "ok")
    | .error e, _ => (st, s!"parse-error {e}")
    | _, .error e => (st, s!"parse-error {e}")
  | ["OP", "insert_block", c, kind, new, ps, ss] => match BKind.ofString? kind with
    | none => (st, "bad-request")
    | some k => reply st ((Model.insertBlock st.m.H c k new (lst ps) (lst ss)).map
        fun H => { st.m with H := H })
  | ["OP", "insert_ctl", c, new, ps, ss] => reply st (Model.insertCtl st.m c new (lst ps) (lst ss))
  | ["OP", "join_returns", c] => reply st (Model.joinReturns st.m c)
  | ["OP", "restructure_loop", c] => reply st (Model.restructureLoop st.m c)
  | ["OP", "restructure_branch", c] => reply st (Model.restructureBranch st.m c)
  | ["OP", "restructure", c] => reply st (Model.restructure st.m c)
  | ["OP", "join_tails_exits", c, ts, es] =>
    match Model.joinTailsExits st.m c (lst ts) (lst es) with
    | .ok (m, t, e) => reply st (.ok m) s!" {t} {e}"
    | .error a => (st, s!"abort {a.toString}")
  | _ => (st, "bad-request")

partial def loop (h : IO.FS.Stream) (out : IO.FS.Stream) (st : DState) : IO Unit := do
  let line ← h.getLine
  if line.isEmpty then return ()
  let (st', reply) := step st line
  out.putStrLn (reply.replace "\n" " ")
  loop h out st'

def main : IO Unit := do
  let out ← IO.getStdout
  loop (← IO.getStdin) out {}
  out.flush
