import Scfg
/-!
# Line-protocol driver (glue)

One request per input line, exactly one reply line per request.

    G <top> <hier>     set the original graph             → ok
    H <top> <hier>     set the hierarchy under test       → ok
    CHK                run all deciders on (G, H)          → k=v ...
    DIAG               first offending pair of each walk   → text
-/
open Scfg

structure DState where
  g : Hier := []
  gtop : Name := ""
  h : Hier := []
  htop : Name := ""

def bit (b : Bool) : String := if b then "1" else "0"

def bits (cs : List (String × Bool)) : String := String.join (cs.map fun c => bit c.2)

def diagSim {β : Type} [BEq β] [Repr β] (A : Sys (Option Name)) (B : Sys β) (a0 : Option Name) (b0 : β)
    (fuel : Nat) : String :=
  let R := buildSim A B fuel [(a0, b0)] []
  match R.find? (fun p => !(pairOk A B R p)) with
  | none => if R.contains (a0, b0) then "closed" else "start-missing"
  | some p => s!"orig={repr (A.obs p.1)} here={repr (B.obs p.2)} state={repr p.2}"

def step (st : DState) (line : String) : DState × String :=
  let line := line.trimAscii.toString
  match line.splitOn " " with
  | ["G", top, h] => match parseHier h with
    | .ok g => ({ st with g := g, gtop := top }, "ok")
    | .error e => (st, s!"parse-error {e}")
  | ["H", top, h] => match parseHier h with
    | .ok hh => ({ st with h := hh, htop := top }, "ok")
    | .error e => (st, s!"parse-error {e}")
  | ["CHK"] =>
    let G := st.g; let H := st.h
    let out := " ".intercalate [
      s!"simName={bit (simNameOK G H st.gtop st.htop false)}",
      s!"simRegion={bit (simRegionOK G H st.gtop st.htop false)}",
      s!"simNameC={bit (simNameOK G H st.gtop st.htop true)}",
      s!"simRegionC={bit (simRegionOK G H st.gtop st.htop true)}",
      s!"wf={bits (wfClauses H)}",
      s!"structured={bits (structuredClauses H st.htop)}",
      s!"conserved={bit (conserved G H)}",
      s!"tables={bit (tablesOK H)}",
      s!"ctl={bit (ctlOK G H st.gtop st.htop)}"]
    (st, out)
  | ["DIAG"] =>
    let G := st.g; let H := st.h
    let f := simFuel G H
    let a0 := initOrig G st.gtop
    (st, " ## ".intercalate [
      "name: " ++ diagSim (sysOrig G) (sysName H false) a0 (initName H st.htop false) f,
      "region: " ++ diagSim (sysOrig G) (sysRegion H false) a0 (initRegion H st.htop false) f,
      "nameC: " ++ diagSim (sysOrig G) (sysName H true) a0 (initName H st.htop true) f,
      "regionC: " ++ diagSim (sysOrig G) (sysRegion H true) a0 (initRegion H st.htop true) f])
  | ["ECHO"] => (st, printHier st.h)
  | _ => (st, "bad-request")

partial def loop (h : IO.FS.Stream) (out : IO.FS.Stream) (st : DState) : IO Unit := do
  let line ← h.getLine
  if line.isEmpty then return ()
  let (st', reply) := step st line
  out.putStrLn reply
  loop h out st'

def main : IO Unit := do
  let out ← IO.getStdout
  loop (← IO.getStdin) out {}
  out.flush
