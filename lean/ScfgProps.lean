-- Root of the property theorems (kept apart from the model so the driver never imports them).
import Scfg.Props.C01
import Scfg.Props.C03
import Scfg.Props.C04
import Scfg.Props.C05
import Scfg.Props.C06
import Scfg.Props.C14
import Scfg.Props.C18
import Scfg.Props.C13
import Scfg.Props.C16
import Scfg.Props.C09
import Scfg.Props.C11
import Scfg.Props.C12
import Scfg.Props.C15
import Scfg.Props.C17
import Scfg.Props.C08
import Scfg.Props.C10
import Scfg.Props.C02
